import Cardutil.Model.Iso8583
import Cardutil.Lemmas.Vbs
/-
  Lemmas for C07: every path through the ISO8583 decoder model ends in a value or the library's
  own error; the data-dependent loops terminate within their fuel.
-/
namespace Cardutil.Iso

open Cardutil Cardutil.Py

/-- a value or the library error (the two outcomes C07 allows) -/
def Safe {α} (o : Outcome α) : Prop := o.isOkOrDataError = true

theorem safe_ok {α} (a : α) : Safe (Outcome.ok a) := rfl
theorem safe_dataError {α} : Safe (Outcome.dataError : Outcome α) := rfl

theorem safe_cases {α} {o : Outcome α} (h : Safe o) : (∃ a, o = .ok a) ∨ o = .dataError := by
  cases o with
  | ok a => exact Or.inl ⟨a, rfl⟩
  | dataError => exact Or.inr rfl
  | escape k => simp [Safe, Outcome.isOkOrDataError] at h
  | diverge => simp [Safe, Outcome.isOkOrDataError] at h

/-! ### PDS walk -/

theorem pdsWalk_outcome (k : IntClasses) (fuel : Nat) (t : Text) (acc : Dict) (hf : t.length < fuel) :
    (∃ d, pdsWalk k fuel t acc = .ok d) ∨ pdsWalk k fuel t acc = .escape .valueError := by
  induction fuel generalizing t acc with
  | zero => omega
  | succ f ih =>
    rw [pdsWalk]
    by_cases he : t.isEmpty = true
    · simp [he]
    · simp only [he, Bool.false_eq_true, if_false]
      cases hp : pyInt k ((t.drop 4).take 3) with
      | none => simp
      | some i =>
        cases i with
        | ofNat n =>
          simp only
          apply ih
          have : 0 < t.length := by
            cases t with
            | nil => simp at he
            | cons _ _ => simp
          simp only [List.length_drop]; omega
        | negSucc n => simp

theorem pdsToDict_safe (k : IntClasses) (t : Text) :
    Safe ((pdsToDict k t).catchAs isValueOrStructError) := by
  rcases pdsWalk_outcome k (t.length + 1) t [] (by omega) with ⟨d, h⟩ | h
  · simp [pdsToDict, h, Outcome.catchAs, Safe, Outcome.isOkOrDataError]
  · simp [pdsToDict, h, Outcome.catchAs, isValueOrStructError, Safe, Outcome.isOkOrDataError]

/-- the PDS walker never runs out of fuel: the Python loop terminates on every input -/
theorem pdsToDict_terminates (k : IntClasses) (t : Text) : pdsToDict k t ≠ .diverge := by
  rcases pdsWalk_outcome k (t.length + 1) t [] (by omega) with ⟨d, h⟩ | h <;> simp [pdsToDict, h]

/-! ### ICC walk -/

theorem iccAfter_length (b : Bytes) (h : b ≠ []) : (iccAfter b).length < b.length := by
  cases b with
  | nil => exact absurd rfl h
  | cons t0 rest =>
    simp only [iccAfter]
    split
    · simp only [List.length_drop, List.length_cons]; omega
    · simp

theorem iccWalk_outcome (fuel : Nat) (b : Bytes) (acc : Dict) (hf : b.length < fuel) :
    (∃ d, iccWalk fuel b acc = .ok d) ∨ iccWalk fuel b acc = .escape .structError := by
  induction fuel generalizing b acc with
  | zero => omega
  | succ f ih =>
    rw [iccWalk]
    by_cases he : b.isEmpty = true
    · simp [he]
    · simp only [he, Bool.false_eq_true, if_false]
      by_cases h0 : (iccTag b == [0]) = true
      · simp [h0]
      · simp only [h0, Bool.false_eq_true, if_false]
        have hne : b ≠ [] := by intro h; subst h; simp at he
        have hlen := iccAfter_length b hne
        cases hafter : iccAfter b with
        | nil => simp
        | cons len body =>
          simp only
          apply ih
          rw [hafter] at hlen
          simp only [List.length_cons, List.length_drop] at hlen ⊢
          omega

theorem iccToDict_safe (b : Bytes) : Safe ((iccToDict b).catchAs isValueOrStructError) := by
  rcases iccWalk_outcome (b.length + 1) b [(.iccData, .str (hexTextLower b))] (by omega) with ⟨d, h⟩ | h
  · simp [iccToDict, h, Outcome.catchAs, Safe, Outcome.isOkOrDataError]
  · simp [iccToDict, h, Outcome.catchAs, isValueOrStructError, Safe, Outcome.isOkOrDataError]

theorem iccToDict_terminates (b : Bytes) : iccToDict b ≠ .diverge := by
  rcases iccWalk_outcome (b.length + 1) b [(.iccData, .str (hexTextLower b))] (by omega) with ⟨d, h⟩ | h <;>
    simp [iccToDict, h]

/-! ### one element -/

/-- the configurations C07 is stated for: every python type (string, int / long, decimal,
    datetime); the sub-structured processors sit on string-typed elements (as documented) -/
def FieldOK (f : FieldCfg) : Prop :=
  (f.proc = .icc ∨ f.proc = .pds ∨ f.proc = .de43) → f.pytype = .str

/-- the typed conversion under its handler `except (ValueError, decimal.InvalidOperation)`:
    a value or the library error, for every python type — `decimal` included -/
theorem stringToPyType_safe (env : Env) (f : FieldCfg) (t : Text) :
    Safe ((stringToPyType env f t).catchAs isConvError) := by
  unfold stringToPyType
  cases hp : f.pytype with
  | str => simp [Outcome.catchAs, Safe, Outcome.isOkOrDataError]
  | int =>
    simp only
    cases pyInt env.classes t <;> simp [Outcome.catchAs, isConvError, Safe, Outcome.isOkOrDataError]
  | decimal =>
    simp only
    cases pyDecimal env.classes t <;> simp [Outcome.catchAs, isConvError, Safe, Outcome.isOkOrDataError]
  | datetime =>
    simp only
    cases strptime env.classes f.dateFmt t <;> simp [Outcome.catchAs, isConvError, Safe, Outcome.isOkOrDataError]

theorem stringToPyType_str (env : Env) (f : FieldCfg) (t : Text) (h : f.pytype = .str) :
    stringToPyType env f t = .ok (.str t) := by
  simp [stringToPyType, h]

theorem safe_bind {α β} {o : Outcome α} {g : α → Outcome β} (ho : Safe o) (hg : ∀ a, Safe (g a)) :
    Safe (o.bind g) := by
  rcases safe_cases ho with ⟨a, rfl⟩ | rfl
  · exact hg a
  · rfl

theorem fieldLength_safe (env : Env) (f : FieldCfg) (data : Bytes) : Safe (fieldLength env f data) := by
  unfold fieldLength
  split
  · exact safe_ok _
  · split
    · exact safe_dataError
    · split
      · exact safe_dataError
      · exact safe_dataError
      · exact safe_ok _

theorem decodeIcc_safe (bit : Nat) (f : FieldCfg) (raw : Bytes) (h : f.pytype = .str) : Safe (decodeIcc bit f raw) := by
  unfold decodeIcc
  rw [h]
  exact safe_bind (iccToDict_safe raw) (fun _ => safe_ok _)

theorem derived_safe_str (env : Env) (bit : Nat) (f : FieldCfg) (t : Text) : Safe (derived env bit f (.str t)) := by
  unfold derived
  split
  · exact pdsToDict_safe _ _
  · exact safe_ok _
  · exact safe_ok _

theorem derived_safe_plain (env : Env) (bit : Nat) (f : FieldCfg) (v : Val) (h1 : f.proc ≠ .pds) (h2 : f.proc ≠ .de43) :
    Safe (derived env bit f v) := by
  unfold derived
  split
  · rename_i h; exact absurd h h1
  · rename_i h; exact absurd h h2
  · exact safe_ok _

theorem decodeTextField_safe (env : Env) (bit : Nat) (f : FieldCfg) (raw : Bytes) (hf : FieldOK f) :
    Safe (decodeTextField env bit f raw) := by
  unfold decodeTextField
  split
  · exact safe_dataError
  · rename_i text _
    by_cases hs : f.proc = .pds ∨ f.proc = .de43
    · have hstr : f.pytype = .str := hf (Or.inr hs)
      rw [stringToPyType_str env f _ hstr]
      simp only [Outcome.catchAs, Outcome.bind]
      exact safe_bind (derived_safe_str env bit f _) (fun _ => safe_ok _)
    · have h1 : f.proc ≠ .pds := fun h => hs (Or.inl h)
      have h2 : f.proc ≠ .de43 := fun h => hs (Or.inr h)
      apply safe_bind (stringToPyType_safe env f _)
      intro v
      exact safe_bind (derived_safe_plain env bit f v h1 h2) (fun _ => safe_ok _)

theorem decodeField_safe (env : Env) (bit : Nat) (f : FieldCfg) (data : Bytes) (hf : FieldOK f) :
    Safe (decodeField env bit f data) := by
  unfold decodeField
  apply safe_bind (fieldLength_safe env f data)
  intro flen
  simp only
  apply safe_bind
  · split
    · rename_i hicc
      exact decodeIcc_safe bit f _ (hf (Or.inl (by simpa using hicc)))
    · exact decodeTextField_safe env bit f _ hf
  · intro d; exact safe_ok _

/-- every configured element is acceptable for C07 -/
def ConfigOK (cfg : Config) : Prop := ∀ e ∈ cfg, FieldOK e.2

/-- decidable form of `FieldOK`, so that a configuration of any size is checked by `decide` -/
def fieldOKb (f : FieldCfg) : Bool :=
  !(f.proc == .icc || f.proc == .pds || f.proc == .de43) || f.pytype == .str

theorem fieldOK_of_b {f : FieldCfg} (h : fieldOKb f = true) : FieldOK f := by
  unfold fieldOKb at h
  simp only [Bool.or_eq_true, Bool.not_eq_true', beq_iff_eq] at h
  intro hp
  rcases h with h2 | h2
  · rcases hp with hp | hp | hp <;> simp [hp] at h2
  · exact h2

theorem configOK_of_all {cfg : Config} (h : cfg.all (fun e => fieldOKb e.2) = true) : ConfigOK cfg := by
  intro e he
  exact fieldOK_of_b (List.all_eq_true.mp h e he)

theorem config_get_mem {cfg : Config} {bit : Nat} {f : FieldCfg} (h : cfg.get bit = some f) : ∃ e ∈ cfg, e.2 = f := by
  unfold Config.get at h
  cases hfind : cfg.find? (·.1 == bit) with
  | none => simp [hfind] at h
  | some e =>
    simp [hfind] at h
    exact ⟨e, List.mem_of_find?_eq_some hfind, h⟩

theorem decodeBits_safe (env : Env) (cfg : Config) (hc : ConfigOK cfg) (bits : List Nat) (data : Bytes) (acc : Dict)
    (ptr : Nat) : Safe (decodeBits env cfg bits data acc ptr) := by
  induction bits generalizing acc ptr with
  | nil => exact safe_ok _
  | cons bit bits ih =>
    simp only [decodeBits]
    split
    · exact safe_dataError
    · rename_i f hget
      obtain ⟨e, he, rfl⟩ := config_get_mem hget
      exact safe_bind (decodeField_safe env bit e.2 (data.drop ptr) (hc e he)) (fun r => ih _ _)

theorem decodeHeader_safe (env : Env) (hexBitmap : Bool) (msg : Bytes) : Safe (decodeHeader env hexBitmap msg) := by
  unfold decodeHeader
  cases hexBitmap <;> simp only [Bool.false_eq_true, if_false, if_true] <;>
    repeat (first | exact safe_dataError | exact safe_ok _ | split)

theorem decodeBody_safe (env : Env) (cfg : Config) (hc : ConfigOK cfg) (mti : Text) (bitmap data : Bytes) :
    Safe (decodeBody env cfg mti bitmap data) := by
  unfold decodeBody
  apply safe_bind (decodeBits_safe env cfg hc _ _ _ _)
  intro r
  split
  · exact safe_ok _
  · exact safe_dataError

/-- C07 core: the message decoder returns a dictionary or the library error, for EVERY byte
    string, codec, bitmap rendering and acceptable configuration -/
theorem decode_safe (env : Env) (cfg : Config) (hc : ConfigOK cfg) (hexBitmap : Bool) (msg : Bytes) :
    Safe (decode env cfg hexBitmap msg) := by
  unfold decode
  exact safe_bind (decodeHeader_safe env hexBitmap msg) (fun h => decodeBody_safe env cfg hc _ _ _)

end Cardutil.Iso
