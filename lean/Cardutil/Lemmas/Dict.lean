import Cardutil.Model.Iso8583
/-
  Finite-map facts about the Python-dict model (`Dict.set` / `Dict.get` / `Dict.update`).
-/
namespace Cardutil.Iso

theorem Dict.get_nil (k : Key) : Dict.get [] k = none := rfl

theorem Dict.get_cons (k' : Key) (v' : Val) (rest : Dict) (k : Key) :
    Dict.get ((k', v') :: rest) k = if k' = k then some v' else Dict.get rest k := by
  unfold Dict.get
  by_cases h : k' = k
  · simp [List.find?_cons, h]
  · simp [List.find?_cons, h]

theorem Dict.get_set_same (d : Dict) (k : Key) (v : Val) : Dict.get (Dict.set d k v) k = some v := by
  induction d with
  | nil => simp [Dict.set, Dict.get_cons]
  | cons kv rest ih =>
    obtain ⟨k', v'⟩ := kv
    simp only [Dict.set]
    by_cases h : k' = k
    · simp [h, Dict.get_cons]
    · have : (k' == k) = false := by simpa using h
      simp [this, Dict.get_cons, h, ih]

theorem Dict.get_set_other (d : Dict) (k k2 : Key) (v : Val) (h : k ≠ k2) :
    Dict.get (Dict.set d k v) k2 = Dict.get d k2 := by
  induction d with
  | nil => simp [Dict.set, Dict.get_cons, Dict.get_nil, h]
  | cons kv rest ih =>
    obtain ⟨k', v'⟩ := kv
    simp only [Dict.set]
    by_cases h1 : k' = k
    · subst h1
      simp [Dict.get_cons, h]
    · have : (k' == k) = false := by simpa using h1
      simp only [this, Bool.false_eq_true, if_false, Dict.get_cons, ih]

/-- storing a list of entries with pairwise different keys: each key reads back its own value -/
theorem Dict.get_foldl_set (ents : List (Key × Val)) (acc : Dict) (hnd : (ents.map (·.1)).Nodup)
    (k : Key) (v : Val) (hm : (k, v) ∈ ents) :
    Dict.get (ents.foldl (fun a e => Dict.set a e.1 e.2) acc) k = some v := by
  induction ents generalizing acc with
  | nil => simp at hm
  | cons e es ih =>
    simp only [List.map_cons, List.nodup_cons] at hnd
    simp only [List.foldl_cons]
    rcases List.mem_cons.mp hm with h | h
    · subst h
      -- later entries have other keys
      have : ∀ (l : List (Key × Val)) (a : Dict), (∀ x ∈ l, x.1 ≠ k) →
          Dict.get (l.foldl (fun a e => Dict.set a e.1 e.2) a) k = Dict.get a k := by
        intro l
        induction l with
        | nil => intro a _; rfl
        | cons x xs ihx =>
          intro a hx
          simp only [List.foldl_cons]
          rw [ihx _ (fun y hy => hx y (by simp [hy])), Dict.get_set_other _ _ _ _ (hx x (by simp))]
      rw [this es _ (by
        intro x hx heq
        apply hnd.1
        rw [← heq]
        exact List.mem_map.mpr ⟨x, hx, rfl⟩), Dict.get_set_same]
    · exact ih _ hnd.2 h

/-- keys not among the stored ones are unchanged -/
theorem Dict.get_foldl_set_other (ents : List (Key × Val)) (acc : Dict) (k : Key) (h : ∀ e ∈ ents, e.1 ≠ k) :
    Dict.get (ents.foldl (fun a e => Dict.set a e.1 e.2) acc) k = Dict.get acc k := by
  induction ents generalizing acc with
  | nil => rfl
  | cons e es ih =>
    simp only [List.foldl_cons]
    rw [ih _ (fun x hx => h x (by simp [hx])), Dict.get_set_other _ _ _ _ (h e (by simp))]

theorem Dict.update_eq_foldl (d e : Dict) : Dict.update d e = e.foldl (fun a kv => Dict.set a kv.1 kv.2) d := rfl

end Cardutil.Iso
