import Cardutil.Model.Vbs
import Cardutil.Lemmas.Block
/-
  Lemmas for `Unblock1014.read` (C05): the unblocker refines `take`/`drop` on the payload stream.
-/
namespace Cardutil.Unblock

open Cardutil Cardutil.Block

/-- the payload bytes not yet handed to the caller -/
def remaining (P : Nat) (s : St) : Bytes := s.buf ++ payloads P s.rest

theorem payloads_nil (P : Nat) : payloads P [] = [] := by rw [payloads]; simp

theorem payloads_step {P : Nat} {f : Bytes} (h : f.length ≠ 0) :
    payloads P f = f.take P ++ payloads P (f.drop (P + 2)) := by
  rw [payloads]; simp [h]

theorem refill_inv (P : Nat) (need : Option Nat) (rest buf : Bytes) :
    (refill P need rest buf).2 ++ payloads P (refill P need rest buf).1 = buf ++ payloads P rest := by
  induction rest, buf using refill.induct (P := P) (need := need) with
  | case1 rest buf hc ih =>
    rw [refill, if_pos hc]
    rw [ih, payloads_step hc.2, List.take_take]
    have : min P (P + 2) = P := by omega
    simp [this, List.append_assoc]
  | case2 rest buf hc =>
    rw [refill, if_neg hc]

theorem refill_post (P : Nat) (need : Option Nat) (rest buf : Bytes) :
    wants need (refill P need rest buf).2 = false ∨ (refill P need rest buf).1 = [] := by
  induction rest, buf using refill.induct (P := P) (need := need) with
  | case1 rest buf hc ih =>
    rw [refill, if_pos hc]; exact ih
  | case2 rest buf hc =>
    rw [refill, if_neg hc]
    by_cases hw : wants need buf = true
    · right
      have : rest.length = 0 := by
        by_cases h0 : rest.length = 0
        · exact h0
        · exact absurd ⟨hw, h0⟩ hc
      simpa using this
    · left; simpa using hw

theorem read_some (P : Nat) (s : St) (n : Nat) :
    (read P s (some n)).1 = (remaining P s).take n ∧
    remaining P (read P s (some n)).2 = (remaining P s).drop n := by
  have hinv := refill_inv P (some n) s.rest s.buf
  have hpost := refill_post P (some n) s.rest s.buf
  unfold read remaining
  simp only
  rw [← hinv]
  rcases hpost with h | h
  · have hl : n < (refill P (some n) s.rest s.buf).2.length := by
      simp [wants] at h; omega
    constructor
    · rw [List.take_append_of_le_length (by omega)]
    · rw [List.drop_append_of_le_length (by omega)]
  · rw [h, payloads_nil]; simp

theorem read_none (P : Nat) (s : St) :
    (read P s none).1 = remaining P s ∧ remaining P (read P s none).2 = [] := by
  have hinv := refill_inv P none s.rest s.buf
  have hpost := refill_post P none s.rest s.buf
  unfold read remaining
  simp only
  rw [← hinv]
  rcases hpost with h | h
  · simp [wants] at h
  · rw [h, payloads_nil]; simp

/-- the abstract meaning of a history of reads on a byte stream -/
def specReads : Bytes → List (Option Nat) → List Bytes
  | _, [] => []
  | R, some n :: ns => R.take n :: specReads (R.drop n) ns
  | R, none :: ns => R :: specReads [] ns

theorem runReads_spec (P : Nat) (s : St) (ns : List (Option Nat)) :
    runReads P s ns = specReads (remaining P s) ns := by
  induction ns generalizing s with
  | nil => simp [runReads, specReads]
  | cons n ns ih =>
    cases n with
    | none =>
      have h := read_none P s
      simp only [runReads, specReads]
      rw [ih, h.1, h.2]
    | some n =>
      have h := read_some P s n
      simp only [runReads, specReads]
      rw [ih, h.1, h.2]

end Cardutil.Unblock
