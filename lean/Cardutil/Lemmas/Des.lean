import Cardutil.Model.Des
/-
  Decryption inverts encryption for the DES / Triple DES model — from the Feistel structure (whatever the round
  function is) and from the fact that the initial and final permutation tables are inverse to each other.
-/
namespace Cardutil.Des

@[simp] theorem perm_length (t : List Nat) (x : Bits) : (perm t x).length = t.length := by simp [perm]

theorem getD_perm (t : List Nat) (x : Bits) (j : Nat) (hj : j < t.length) :
    (perm t x).getD j false = x.getD (t.getD j 0 - 1) false := by
  simp [perm, List.getD_eq_getElem?_getD, List.getElem?_map, hj]

theorem ip_range : ∀ i, i < 64 → IP.getD i 0 - 1 < 64 := by decide
theorem fp_range : ∀ i, i < 64 → FP.getD i 0 - 1 < 64 := by decide
theorem fp_ip : ∀ i, i < 64 → FP.getD (IP.getD i 0 - 1) 0 - 1 = i := by decide
theorem ip_fp : ∀ i, i < 64 → IP.getD (FP.getD i 0 - 1) 0 - 1 = i := by decide

theorem ext_getD (a b : Bits) (hl : a.length = b.length) (h : ∀ i, i < a.length → a.getD i false = b.getD i false) : a = b := by
  apply List.ext_getElem hl
  intro i h1 h2
  have := h i h1
  simpa [List.getD_eq_getElem?_getD, List.getElem?_eq_getElem h1, List.getElem?_eq_getElem h2] using this

/-- the initial permutation undoes the final one … -/
theorem perm_ip_fp (b : Bits) (hb : b.length = 64) : perm IP (perm FP b) = b := by
  apply ext_getD
  · simp [IP, hb]
  · intro i hi
    have hi' : i < 64 := by simpa [IP] using hi
    rw [getD_perm IP _ i (by simpa [IP] using hi'), getD_perm FP _ _ (by have := ip_range i hi'; simpa [FP] using this),
      fp_ip i hi']

/-- … and the final permutation undoes the initial one -/
theorem perm_fp_ip (b : Bits) (hb : b.length = 64) : perm FP (perm IP b) = b := by
  apply ext_getD
  · simp [FP, hb]
  · intro i hi
    have hi' : i < 64 := by simpa [FP] using hi
    rw [getD_perm FP _ i (by simpa [FP] using hi'), getD_perm IP _ _ (by have := fp_range i hi'; simpa [IP] using this),
      ip_fp i hi']

theorem xorB_length (a b : Bits) : (xorB a b).length = min a.length b.length := by simp [xorB]

theorem xorB_cancel : ∀ (a b : Bits), a.length ≤ b.length → xorB (xorB a b) b = a
  | [], _, _ => by simp [xorB]
  | x :: a, [], h => by simp at h
  | x :: a, y :: b, h => by
    have ih := xorB_cancel a b (by simpa using h)
    simp only [xorB, List.zipWith_cons_cons] at ih ⊢
    rw [ih]
    cases x <;> cases y <;> rfl

theorem f_length (r k : Bits) : (f r k).length = 32 := by simp [f, P]

/-- running the rounds with the keys in reverse order on the swapped halves gives the swapped starting halves -/
theorem feistel (ks : List Bits) : ∀ (l r : Bits), l.length = 32 → r.length = 32 →
    let out := ks.foldl round (l, r)
    out.1.length = 32 ∧ out.2.length = 32 ∧ ks.reverse.foldl round (out.2, out.1) = (r, l) := by
  induction ks with
  | nil => intro l r hl hr; exact ⟨hl, hr, rfl⟩
  | cons k ks ih =>
    intro l r hl hr
    have hx : (xorB l (f r k)).length = 32 := by rw [xorB_length, f_length, hl]; rfl
    obtain ⟨h1, h2, h3⟩ := ih r (xorB l (f r k)) hr hx
    simp only [List.foldl_cons, round] at h1 h2 h3 ⊢
    refine ⟨h1, h2, ?_⟩
    rw [List.reverse_cons, List.foldl_append, h3]
    simp only [List.foldl_cons, List.foldl_nil, round]
    rw [xorB_cancel l (f r k) (by rw [hl, f_length]; exact Nat.le_refl _)]

theorem core_inverse (ks : List Bits) (b : Bits) (hb : b.length = 64) : core ks.reverse (core ks b) = b := by
  unfold core
  have hx : (perm IP b).length = 64 := by simp [IP]
  have hl : ((perm IP b).take 32).length = 32 := by simp [hx]
  have hr : ((perm IP b).drop 32).length = 32 := by simp [hx]
  obtain ⟨h1, h2, h3⟩ := feistel ks _ _ hl hr
  simp only at h1 h2 h3 ⊢
  have hcat : ((ks.foldl round ((perm IP b).take 32, (perm IP b).drop 32)).2 ++
      (ks.foldl round ((perm IP b).take 32, (perm IP b).drop 32)).1).length = 64 := by
    simp [h1, h2]
  rw [perm_ip_fp _ hcat]
  rw [List.take_left' h2, List.drop_left' h2, h3]
  simp only [List.take_append_drop]
  exact perm_fp_ip b hb

theorem core_length (ks : List Bits) (b : Bits) : (core ks b).length = 64 := by simp [core, FP]

theorem dec_enc (key b : Bits) (hb : b.length = 64) : decBlock key (encBlock key b) = b :=
  core_inverse (subkeys key) b hb

theorem enc_dec (key b : Bits) (hb : b.length = 64) : encBlock key (decBlock key b) = b := by
  have := core_inverse (subkeys key).reverse b hb
  rwa [List.reverse_reverse] at this

theorem enc_length (key b : Bits) : (encBlock key b).length = 64 := core_length _ _
theorem dec_length (key b : Bits) : (decBlock key b).length = 64 := core_length _ _

/-- Triple DES (EDE), one block -/
theorem tdes_dec_enc (k1 k2 k3 b : Bits) (hb : b.length = 64) : tdesDecBlock k1 k2 k3 (tdesEncBlock k1 k2 k3 b) = b := by
  unfold tdesDecBlock tdesEncBlock
  rw [dec_enc k3 _ (dec_length _ _), enc_dec k2 _ (enc_length _ _), dec_enc k1 b hb]

theorem tdes_enc_dec (k1 k2 k3 b : Bits) (hb : b.length = 64) : tdesEncBlock k1 k2 k3 (tdesDecBlock k1 k2 k3 b) = b := by
  unfold tdesDecBlock tdesEncBlock
  rw [enc_dec k1 _ (enc_length _ _), dec_enc k2 _ (dec_length _ _), enc_dec k3 b hb]

/-! ### bytes and ECB -/

def IsBytes (b : Bytes) : Prop := ∀ x ∈ b, x < 256

theorem byte_back : ∀ x, x < 256 → bytesOfBits (bitsOfByte x) = [x] := by decide +kernel

theorem bytesOfBits_append8 (b0 b1 b2 b3 b4 b5 b6 b7 : Bool) (rest : Bits) :
    bytesOfBits ([b0, b1, b2, b3, b4, b5, b6, b7] ++ rest) = bytesOfBits [b0, b1, b2, b3, b4, b5, b6, b7] ++ bytesOfBits rest := by
  simp [bytesOfBits]

theorem bitsOfByte_eq (x : Nat) : bitsOfByte x =
    [x / 128 % 2 == 1, x / 64 % 2 == 1, x / 32 % 2 == 1, x / 16 % 2 == 1, x / 8 % 2 == 1, x / 4 % 2 == 1, x / 2 % 2 == 1,
      x / 1 % 2 == 1] := by
  unfold bitsOfByte
  have hr : List.range 8 = [0, 1, 2, 3, 4, 5, 6, 7] := by decide
  rw [hr]
  simp only [List.map_cons, List.map_nil, Nat.reduceSub, Nat.reducePow]

theorem bitsOfByte_shape (x : Nat) : ∃ b0 b1 b2 b3 b4 b5 b6 b7, bitsOfByte x = [b0, b1, b2, b3, b4, b5, b6, b7] :=
  ⟨_, _, _, _, _, _, _, _, bitsOfByte_eq x⟩

theorem bytesOfBits_bitsOfBytes (b : Bytes) (hb : IsBytes b) : bytesOfBits (bitsOfBytes b) = b := by
  induction b with
  | nil => rfl
  | cons x xs ih =>
    have hx := byte_back x (hb x (by simp))
    have ih' := ih (fun y hy => hb y (by simp [hy]))
    obtain ⟨b0, b1, b2, b3, b4, b5, b6, b7, hs⟩ := bitsOfByte_shape x
    simp only [bitsOfBytes, List.flatMap_cons] at ih' ⊢
    rw [hs, bytesOfBits_append8, ← hs, hx, ih']
    rfl

theorem bit_back (b0 b1 b2 b3 b4 b5 b6 b7 : Bool) :
    bitsOfBytes (bytesOfBits [b0, b1, b2, b3, b4, b5, b6, b7]) = [b0, b1, b2, b3, b4, b5, b6, b7] := by
  cases b0 <;> cases b1 <;> cases b2 <;> cases b3 <;> cases b4 <;> cases b5 <;> cases b6 <;> cases b7 <;> decide

theorem bitsOfBytes_bytesOfBits (n : Nat) : ∀ (l : Bits), l.length = 8 * n → bitsOfBytes (bytesOfBits l) = l := by
  induction n with
  | zero => intro l h; have : l = [] := by simpa using h
            subst this; rfl
  | succ n ih =>
    intro l h
    match l, h with
    | b0 :: b1 :: b2 :: b3 :: b4 :: b5 :: b6 :: b7 :: rest, h =>
      have hr : rest.length = 8 * n := by simp at h; omega
      have e : (b0 :: b1 :: b2 :: b3 :: b4 :: b5 :: b6 :: b7 :: rest) = [b0, b1, b2, b3, b4, b5, b6, b7] ++ rest := rfl
      rw [e, bytesOfBits_append8]
      have hone : bytesOfBits [b0, b1, b2, b3, b4, b5, b6, b7] =
          [128 * b2n b0 + 64 * b2n b1 + 32 * b2n b2 + 16 * b2n b3 + 8 * b2n b4 + 4 * b2n b5 + 2 * b2n b6 + b2n b7] := rfl
      have hb := bit_back b0 b1 b2 b3 b4 b5 b6 b7
      rw [hone] at hb ⊢
      simp only [bitsOfBytes, List.flatMap_cons, List.flatMap_nil, List.append_nil, List.singleton_append] at hb ⊢
      rw [hb]
      have := ih rest hr
      simp only [bitsOfBytes] at this
      rw [this]

theorem bytesOfBits_length (n : Nat) : ∀ (l : Bits), l.length = 8 * n → (bytesOfBits l).length = n := by
  induction n with
  | zero => intro l h; have : l = [] := by simpa using h
            subst this; rfl
  | succ n ih =>
    intro l h
    match l, h with
    | b0 :: b1 :: b2 :: b3 :: b4 :: b5 :: b6 :: b7 :: rest, h =>
      have hr : rest.length = 8 * n := by simp at h; omega
      simp [bytesOfBits, ih rest hr]

theorem bitsOfBytes_length (b : Bytes) : (bitsOfBytes b).length = 8 * b.length := by
  induction b with
  | nil => rfl
  | cons x xs ih => simp only [bitsOfBytes, List.flatMap_cons, List.length_append] at ih ⊢; simp [bitsOfByte, ih]; omega

/-- cutting into 8-byte blocks and joining them again -/
theorem blocks8_spec : ∀ (n : Nat) (data : Bytes), data.length = 8 * n →
    (blocks8 data).flatten = data ∧ (blocks8 data).length = n ∧ ∀ blk ∈ blocks8 data, blk.length = 8 ∧ ∀ x ∈ blk, x ∈ data := by
  intro n
  induction n with
  | zero => intro data h; have : data = [] := by simpa using h
            subst this; simp [blocks8]
  | succ n ih =>
    intro data h
    match data, h with
    | a :: b :: c :: d :: e :: f :: g :: hh :: rest, h =>
      have hr : rest.length = 8 * n := by simp at h; omega
      obtain ⟨h1, h2, h3⟩ := ih rest hr
      refine ⟨by simp [blocks8, h1], by simp [blocks8, h2], ?_⟩
      intro blk hb
      simp only [blocks8, List.mem_cons] at hb
      rcases hb with rfl | hb
      · exact ⟨rfl, fun x hx => by simp at hx ⊢; rcases hx with h | h | h | h | h | h | h | h <;> simp [h]⟩
      · obtain ⟨hl, hm⟩ := h3 blk hb
        exact ⟨hl, fun x hx => by have := hm x hx; simp [this]⟩

/-- blocks of a concatenation of 8-byte pieces are the pieces -/
theorem blocks8_flatMap (g : Bytes → Bytes) : ∀ (l : List Bytes), (∀ x ∈ l, (g x).length = 8) →
    blocks8 (l.flatMap g) = l.map g := by
  intro l
  induction l with
  | nil => intro _; rfl
  | cons x xs ih =>
    intro h
    have hx := h x (by simp)
    have ih' := ih (fun y hy => h y (by simp [hy]))
    simp only [List.flatMap_cons, List.map_cons]
    match hg : g x, hx with
    | [a, b, c, d, e, f, g', hh], _ =>
      simp only [List.cons_append, List.nil_append, blocks8, ih']

/-- what one block goes through, encrypt then decrypt -/
theorem block_roundtrip (k1 k2 k3 : Bits) (blk : Bytes) (hl : blk.length = 8) (hb : IsBytes blk) :
    bytesOfBits (tdesDecBlock k1 k2 k3 (bitsOfBytes (bytesOfBits (tdesEncBlock k1 k2 k3 (bitsOfBytes blk))))) = blk := by
  have h64 : (bitsOfBytes blk).length = 64 := by rw [bitsOfBytes_length, hl]
  have he : (tdesEncBlock k1 k2 k3 (bitsOfBytes blk)).length = 8 * 8 := by unfold tdesEncBlock; rw [enc_length]
  rw [bitsOfBytes_bytesOfBits 8 _ he, tdes_dec_enc k1 k2 k3 _ h64, bytesOfBits_bitsOfBytes blk hb]

theorem block_roundtrip' (k1 k2 k3 : Bits) (blk : Bytes) (hl : blk.length = 8) (hb : IsBytes blk) :
    bytesOfBits (tdesEncBlock k1 k2 k3 (bitsOfBytes (bytesOfBits (tdesDecBlock k1 k2 k3 (bitsOfBytes blk))))) = blk := by
  have h64 : (bitsOfBytes blk).length = 64 := by rw [bitsOfBytes_length, hl]
  have he : (tdesDecBlock k1 k2 k3 (bitsOfBytes blk)).length = 8 * 8 := by unfold tdesDecBlock; rw [dec_length]
  rw [bitsOfBytes_bytesOfBits 8 _ he, tdes_enc_dec k1 k2 k3 _ h64, bytesOfBits_bitsOfBytes blk hb]

theorem flatMap_roundtrip (En De : Bytes → Bytes) : ∀ (l : List Bytes), (∀ blk ∈ l, De (En blk) = blk) →
    (l.map En).flatMap De = l.flatten := by
  intro l
  induction l with
  | nil => intro _; rfl
  | cons y ys ih =>
    intro hh
    simp only [List.map_cons, List.flatMap_cons, List.flatten_cons, hh y (by simp), ih (fun z hz => hh z (by simp [hz]))]

theorem flatMap_length8 (g : Bytes → Bytes) : ∀ (l : List Bytes), (∀ x ∈ l, (g x).length = 8) →
    (l.flatMap g).length = 8 * l.length := by
  intro l
  induction l with
  | nil => intro _; rfl
  | cons y ys ih =>
    intro hh
    simp only [List.flatMap_cons, List.length_append, hh y (by simp), ih (fun z hz => hh z (by simp [hz])), List.length_cons]
    omega

/-- one block through the cipher, as bytes -/
def encB (k1 k2 k3 : Bits) (blk : Bytes) : Bytes := bytesOfBits (tdesEncBlock k1 k2 k3 (bitsOfBytes blk))
def decB (k1 k2 k3 : Bits) (blk : Bytes) : Bytes := bytesOfBits (tdesDecBlock k1 k2 k3 (bitsOfBytes blk))

theorem encB_length (k1 k2 k3 : Bits) (blk : Bytes) : (encB k1 k2 k3 blk).length = 8 :=
  bytesOfBits_length 8 _ (by unfold tdesEncBlock; rw [enc_length])

theorem decB_encB (k1 k2 k3 : Bits) (blk : Bytes) (hl : blk.length = 8) (hb : IsBytes blk) :
    decB k1 k2 k3 (encB k1 k2 k3 blk) = blk := block_roundtrip k1 k2 k3 blk hl hb

theorem ecb_unfold (decrypt : Bool) (key data : Bytes) (k1 k2 k3 : Bits) (hk : splitKey key = some (k1, k2, k3))
    (hd : data.length % 8 = 0) :
    tdesEcb decrypt key data = .ok ((blocks8 data).flatMap (if decrypt then decB k1 k2 k3 else encB k1 k2 k3)) := by
  unfold tdesEcb
  rw [hk]
  simp only
  rw [if_neg (by omega)]
  cases decrypt <;> rfl

/-- Triple DES ECB: decrypting what was encrypted under the same key gives the data back — for every key of 8, 16 or
    24 bytes and every whole number of blocks -/
theorem tdesEcb_dec_enc (key data : Bytes) (ct : Bytes) (hb : IsBytes data) (h : tdesEcb false key data = .ok ct) :
    tdesEcb true key ct = .ok data := by
  cases hk : splitKey key with
  | none => unfold tdesEcb at h; rw [hk] at h; simp at h
  | some ks =>
    obtain ⟨k1, k2, k3⟩ := ks
    by_cases hd : data.length % 8 = 0
    · rw [ecb_unfold false key data k1 k2 k3 hk hd] at h
      simp only [Outcome.ok.injEq, Bool.false_eq_true, if_false] at h
      have hn : data.length = 8 * (data.length / 8) := by omega
      obtain ⟨hflat, _, hblk⟩ := blocks8_spec (data.length / 8) data hn
      have hg : ∀ x ∈ blocks8 data, (encB k1 k2 k3 x).length = 8 := fun x _ => encB_length k1 k2 k3 x
      have hctlen : ct.length % 8 = 0 := by rw [← h, flatMap_length8 _ _ hg]; omega
      rw [ecb_unfold true key ct k1 k2 k3 hk hctlen, ← h, blocks8_flatMap _ _ hg]
      simp only [if_true]
      rw [flatMap_roundtrip (encB k1 k2 k3) (decB k1 k2 k3) _
        (fun blk hbk => decB_encB k1 k2 k3 blk (hblk blk hbk).1 (fun x hx => hb x ((hblk blk hbk).2 x hx))), hflat]
    · unfold tdesEcb at h
      rw [hk] at h
      simp only at h
      rw [if_pos hd] at h
      simp at h

theorem bytesOfBits_lt : ∀ (n : Nat) (l : Bits), l.length = 8 * n → IsBytes (bytesOfBits l) := by
  intro n
  induction n with
  | zero => intro l h; have : l = [] := by simpa using h
            subst this; intro x hx; simp [bytesOfBits] at hx
  | succ n ih =>
    intro l h
    match l, h with
    | b0 :: b1 :: b2 :: b3 :: b4 :: b5 :: b6 :: b7 :: rest, h =>
      have hr : rest.length = 8 * n := by simp at h; omega
      intro x hx
      simp only [bytesOfBits, List.mem_cons] at hx
      rcases hx with rfl | hx
      · cases b0 <;> cases b1 <;> cases b2 <;> cases b3 <;> cases b4 <;> cases b5 <;> cases b6 <;> cases b7 <;> decide
      · exact ih rest hr x hx

/-- whatever the cipher returns is made of bytes -/
theorem tdesEcb_isBytes (decrypt : Bool) (key data out : Bytes) (h : tdesEcb decrypt key data = .ok out) : IsBytes out := by
  unfold tdesEcb at h
  cases hk : splitKey key with
  | none => rw [hk] at h; simp at h
  | some ks =>
    obtain ⟨k1, k2, k3⟩ := ks
    rw [hk] at h
    simp only at h
    split at h
    · simp at h
    · simp only [Outcome.ok.injEq] at h
      rw [← h]
      intro x hx
      obtain ⟨blk, _, hb⟩ := List.mem_flatMap.mp hx
      cases decrypt
      · exact bytesOfBits_lt 8 _ (by simp only [Bool.false_eq_true, if_false]; unfold tdesEncBlock; rw [enc_length]) x hb
      · exact bytesOfBits_lt 8 _ (by simp only [if_true]; unfold tdesDecBlock; rw [dec_length]) x hb

end Cardutil.Des
