import Cardutil.Model.PinBlock
/-
  Lemmas for the PIN block models (C13) and PVV / key combination (C14).
-/
namespace Cardutil.Pin

open Cardutil Cardutil.Digits

/-- ASCII decimal digit text -/
def AllDigits (t : Text) : Prop := ∀ c ∈ t, 48 ≤ c ∧ c ≤ 57

theorem hexNibble_hexChar {n : Nat} (h : n < 16) : hexNibble? (hexChar n) = some n := by
  unfold hexNibble? hexChar
  by_cases h10 : n < 10
  · have : 48 ≤ 48 + n ∧ 48 + n ≤ 57 := by omega
    simp only [h10, if_true, this, and_self]; congr 1; omega
  · have h1 : ¬ (48 ≤ 87 + n ∧ 87 + n ≤ 57) := by omega
    have h2 : 97 ≤ 87 + n ∧ 87 + n ≤ 102 := by omega
    simp only [h10, if_false, h1, h2, and_self, if_true]; congr 1; omega

theorem parseHexText_nil : parseHexText [] = some [] := rfl

theorem parseHexText_cons (c : Nat) (t : Text) :
    parseHexText (c :: t) = (hexNibble? c).bind (fun n => (parseHexText t).map (n :: ·)) := by
  unfold parseHexText
  rw [List.mapM_cons]
  cases hexNibble? c with
  | none => rfl
  | some n => cases List.mapM hexNibble? t <;> rfl

theorem parseHexText_append {a b : Text} {na nb : List Nat} (ha : parseHexText a = some na)
    (hb : parseHexText b = some nb) : parseHexText (a ++ b) = some (na ++ nb) := by
  induction a generalizing na with
  | nil => simp [parseHexText_nil] at ha; subst ha; simpa using hb
  | cons c t ih =>
    rw [parseHexText_cons] at ha
    rw [List.cons_append, parseHexText_cons]
    cases hc : hexNibble? c with
    | none => simp [hc] at ha
    | some n =>
      simp only [hc, Option.bind_some] at ha ⊢
      cases ht : parseHexText t with
      | none => simp [ht] at ha
      | some nt =>
        simp only [ht, Option.map_some, Option.some.injEq] at ha
        subst ha
        simp [ih ht]

theorem parseHexText_hexChars (ns : List Nat) (h : ∀ n ∈ ns, n < 16) :
    parseHexText (ns.map hexChar) = some ns := by
  induction ns with
  | nil => rfl
  | cons n ns ih =>
    rw [List.map_cons, parseHexText_cons, hexNibble_hexChar (h n (by simp)),
      ih (fun x hx => h x (by simp [hx]))]
    rfl

theorem parseHexText_digits (t : Text) (h : AllDigits t) : parseHexText t = some (t.map (· - 48)) := by
  induction t with
  | nil => rfl
  | cons c t ih =>
    have hc := h c (by simp)
    rw [parseHexText_cons, ih (fun x hx => h x (by simp [hx]))]
    simp [hexNibble?, hc]

theorem parseHexText_replicate_f (k : Nat) : parseHexText (List.replicate k 102) = some (List.replicate k 15) := by
  induction k with
  | zero => rfl
  | succ k ih => rw [List.replicate_succ, parseHexText_cons, ih]; rfl

theorem parseHexText_replicate_a (k : Nat) : parseHexText (List.replicate k 97) = some (List.replicate k 10) := by
  induction k with
  | zero => rfl
  | succ k ih => rw [List.replicate_succ, parseHexText_cons, ih]; rfl

theorem hexMin_small {n : Nat} (h : n < 16) : hexMin n = [n] := by
  rw [hexMin]; simp [h]

theorem digits_hexChar (t : Text) (h : AllDigits t) : (t.map (· - 48)).map hexChar = t := by
  induction t with
  | nil => rfl
  | cons c t ih =>
    have hc := h c (by simp)
    simp only [List.map_cons, ih (fun x hx => h x (by simp [hx]))]
    congr 1
    unfold hexChar
    have : c - 48 < 10 := by omega
    simp [this]; omega

theorem digits_lt16 (t : Text) (h : AllDigits t) : ∀ n ∈ t.map (· - 48), n < 16 := by
  intro n hn
  obtain ⟨c, hc, rfl⟩ := List.mem_map.mp hn
  have := h c hc; omega

/-- ISO 9564-1 format 0, first operand: control 0, length, PIN digits, F fill -/
def p1Nibbles (pin : Text) : List Nat :=
  [0, pin.length] ++ (pin.map (· - 48) ++ List.replicate (14 - pin.length) 15)

/-- second operand: 0000 then the 12 rightmost PAN digits excluding the check digit -/
def p2Nibbles (pan : Text) : List Nat := [0, 0, 0, 0] ++ (rightmost12 pan).map (· - 48)

/-- format 4 clear PIN field: control 4, length, PIN digits, A fill -/
def f4Nibbles (pin : Text) : List Nat :=
  [4, pin.length] ++ (pin.map (· - 48) ++ List.replicate (14 - pin.length) 10)

theorem length_p1 {pin : Text} (h : pin.length ≤ 14) : (p1Nibbles pin).length = 16 := by
  simp [p1Nibbles]; omega

theorem length_f4 {pin : Text} (h : pin.length ≤ 14) : (f4Nibbles pin).length = 16 := by
  simp [f4Nibbles]; omega

theorem length_rightmost12 {pan : Text} (h : 13 ≤ pan.length) : (rightmost12 pan).length = 12 := by
  simp [rightmost12, List.length_drop, List.length_take]; omega

theorem length_p2 {pan : Text} (h : 13 ≤ pan.length) : (p2Nibbles pan).length = 16 := by
  simp [p2Nibbles, length_rightmost12 h]

theorem allDigits_rightmost12 {pan : Text} (h : AllDigits pan) : AllDigits (rightmost12 pan) := by
  intro c hc
  exact h c (List.mem_of_mem_take (List.mem_of_mem_drop hc))

theorem p1_lt16 {pin : Text} (hp : AllDigits pin) (hl : pin.length < 16) : ∀ n ∈ p1Nibbles pin, n < 16 := by
  intro n hn
  simp only [p1Nibbles, List.cons_append, List.nil_append, List.mem_cons, List.mem_append,
    List.mem_replicate] at hn
  rcases hn with rfl | rfl | h | h
  · omega
  · omega
  · exact digits_lt16 pin hp n h
  · omega

theorem f4_lt16 {pin : Text} (hp : AllDigits pin) (hl : pin.length < 16) : ∀ n ∈ f4Nibbles pin, n < 16 := by
  intro n hn
  simp only [f4Nibbles, List.cons_append, List.nil_append, List.mem_cons, List.mem_append,
    List.mem_replicate] at hn
  rcases hn with rfl | rfl | h | h
  · omega
  · omega
  · exact digits_lt16 pin hp n h
  · omega

theorem p2_lt16 {pan : Text} (hp : AllDigits pan) : ∀ n ∈ p2Nibbles pan, n < 16 := by
  intro n hn
  simp only [p2Nibbles, List.cons_append, List.nil_append, List.mem_cons] at hn
  rcases hn with rfl | rfl | rfl | rfl | h
  · omega
  · omega
  · omega
  · omega
  · exact digits_lt16 _ (allDigits_rightmost12 hp) n h

/-- the text `"0" + format(len,'x') + pin` left-justified with 'f' parses to the format-0 field -/
theorem parse_p1 {pin : Text} (hp : AllDigits pin) (hl : pin.length ≤ 14) :
    parseHexText (ljust 16 102 ([48] ++ lenField pin ++ pin)) = some (p1Nibbles pin) := by
  have hlen : lenField pin = [hexChar pin.length] := by
    simp [lenField, hexMin_small (show pin.length < 16 by omega)]
  have hw : 16 - ([48] ++ lenField pin ++ pin).length = 14 - pin.length := by
    simp [hlen]
  unfold ljust
  rw [hw, hlen]
  have h0 : parseHexText ([48] ++ [hexChar pin.length]) = some [0, pin.length] := by
    have e : parseHexText [hexChar pin.length] = some [pin.length] := by
      simpa using parseHexText_hexChars [pin.length] (by simp; omega)
    exact parseHexText_append (show parseHexText [48] = some [0] from rfl) e
  have h1 := parseHexText_append h0 (parseHexText_digits pin hp)
  have h2 := parseHexText_append h1 (parseHexText_replicate_f (14 - pin.length))
  simpa [p1Nibbles, List.append_assoc] using h2

theorem parse_f4 {pin : Text} (hp : AllDigits pin) (hl : pin.length ≤ 14) :
    parseHexText (ljust 16 97 ([52] ++ lenField pin ++ pin)) = some (f4Nibbles pin) := by
  have hlen : lenField pin = [hexChar pin.length] := by
    simp [lenField, hexMin_small (show pin.length < 16 by omega)]
  have hw : 16 - ([52] ++ lenField pin ++ pin).length = 14 - pin.length := by
    simp [hlen]
  unfold ljust
  rw [hw, hlen]
  have h0 : parseHexText ([52] ++ [hexChar pin.length]) = some [4, pin.length] := by
    have e : parseHexText [hexChar pin.length] = some [pin.length] := by
      simpa using parseHexText_hexChars [pin.length] (by simp; omega)
    exact parseHexText_append (show parseHexText [52] = some [4] from rfl) e
  have h1 := parseHexText_append h0 (parseHexText_digits pin hp)
  have h2 := parseHexText_append h1 (parseHexText_replicate_a (14 - pin.length))
  simpa [f4Nibbles, List.append_assoc] using h2

theorem parse_p2 {pan : Text} (hp : AllDigits pan) :
    parseHexText ([48, 48, 48, 48] ++ rightmost12 pan) = some (p2Nibbles pan) := by
  have h0 : parseHexText [48, 48, 48, 48] = some [0, 0, 0, 0] := rfl
  exact parseHexText_append h0 (parseHexText_digits _ (allDigits_rightmost12 hp))

theorem intHex_of_parse {t : Text} {n : Nat} {ns : List Nat} (h : parseHexText t = some (n :: ns)) :
    intHex t = .ok (fromDigits 16 (n :: ns)) := by
  simp [intHex, h]

theorem pow16 : (16 : Nat) ^ 16 = 2 ^ 64 := by decide
theorem pow256 : (256 : Nat) ^ 8 = 2 ^ 64 := by decide

theorem xor_cancel (a b : Nat) : (a ^^^ b) ^^^ b = a := by
  rw [Nat.xor_assoc, Nat.xor_self, Nat.xor_zero]

/-! ### nibble-wise XOR = XOR of the numbers -/

theorem xor_step (A B x y : Nat) (hx : x < 16) (hy : y < 16) :
    (16 * A + x) ^^^ (16 * B + y) = 16 * (A ^^^ B) + (x ^^^ y) := by
  have hxy : x ^^^ y < 2 ^ 4 := Nat.xor_lt_two_pow (by simpa using hx) (by simpa using hy)
  apply Nat.eq_of_testBit_eq
  intro i
  have e1 := Nat.testBit_two_pow_mul_add A (show x < 2 ^ 4 by simpa using hx) i
  have e2 := Nat.testBit_two_pow_mul_add B (show y < 2 ^ 4 by simpa using hy) i
  have e3 := Nat.testBit_two_pow_mul_add (A ^^^ B) hxy i
  simp only [show (2 : Nat) ^ 4 = 16 from rfl] at e1 e2 e3
  rw [Nat.testBit_xor, e1, e2, e3]
  by_cases h : i < 4 <;> simp [h, Nat.testBit_xor]

theorem fromDigits_xor (a b : List Nat) (hl : a.length = b.length) (ha : ∀ n ∈ a, n < 16)
    (hb : ∀ n ∈ b, n < 16) :
    fromDigits 16 a ^^^ fromDigits 16 b = fromDigits 16 (List.zipWith (· ^^^ ·) a b) := by
  induction a using rev_induction generalizing b with
  | nil =>
    have : b = [] := by simpa using hl.symm
    subst this; simp [fromDigits]
  | append_singleton a x ih =>
    induction b using rev_induction with
    | nil => simp at hl
    | append_singleton b y _ =>
      have hl' : a.length = b.length := by simpa using hl
      rw [fromDigits_append, fromDigits_append, List.zipWith_append hl']
      simp only [List.zipWith_cons_cons, List.zipWith_nil_right]
      rw [fromDigits_append, xor_step _ _ _ _ (ha x (by simp)) (hb y (by simp)),
        ih b hl' (fun n hn => ha n (by simp [hn])) (fun n hn => hb n (by simp [hn]))]


theorem zipWith_xor_lt16 (a b : List Nat) (ha : ∀ n ∈ a, n < 16) (hb : ∀ n ∈ b, n < 16) :
    ∀ n ∈ List.zipWith (· ^^^ ·) a b, n < 16 := by
  induction a generalizing b with
  | nil => simp
  | cons x xs ih =>
    cases b with
    | nil => simp
    | cons y ys =>
      intro n hn
      simp only [List.zipWith_cons_cons, List.mem_cons] at hn
      rcases hn with rfl | h
      · have := Nat.xor_lt_two_pow (n := 4) (show x < 2 ^ 4 by simpa using ha x (by simp))
          (show y < 2 ^ 4 by simpa using hb y (by simp))
        simpa using this
      · exact ih ys (fun n hn => ha n (by simp [hn])) (fun n hn => hb n (by simp [hn])) n h

/-! ### bytes <-> nibbles -/

theorem bytesToNibbles_nibblesToBytes (ns : List Nat) (h : ∀ n ∈ ns, n < 16) (he : ns.length % 2 = 0) :
    bytesToNibbles (nibblesToBytes ns) = ns := by
  induction ns using nibblesToBytes.induct with
  | case1 a b rest ih =>
    have ha := h a (by simp)
    have hb := h b (by simp)
    have := ih (fun n hn => h n (by simp [hn])) (by simp at he; omega)
    simp only [nibblesToBytes, bytesToNibbles, List.flatMap_cons] at this ⊢
    rw [this]
    have h1 : (16 * a + b) / 16 = a := by omega
    have h2 : (16 * a + b) % 16 = b := by omega
    simp [h1, h2]
  | case2 ns hne =>
    match ns, hne with
    | [], _ => rfl
    | [x], _ => simp at he
    | a :: b :: rest, hne => exact absurd rfl (hne a b rest)

/-- 16 base-16 digits and the 8 base-256 digits of the same number -/
theorem toDigits256_nibbles (v : Nat) (w : Nat) :
    bytesToNibbles (toDigits 256 w v) = toDigits 16 (2 * w) v := by
  induction w generalizing v with
  | zero => rfl
  | succ w ih =>
    have : 2 * (w + 1) = (2 * w + 1) + 1 := by omega
    rw [this, toDigits, toDigits, toDigits]
    simp only [bytesToNibbles, List.flatMap_append, List.flatMap_cons, List.flatMap_nil,
      List.append_nil] at ih ⊢
    rw [ih]
    have h1 : v / 16 / 16 = v / 256 := by omega
    have h2 : v / 16 % 16 = v % 256 / 16 := by omega
    have h3 : v % 16 = v % 256 % 16 := by omega
    rw [h1, h2, ← h3]
    simp [List.append_assoc]

end Cardutil.Pin

namespace Cardutil.Pin

open Cardutil Cardutil.Digits

/-! ### PVV decimalisation and key combination (C14) -/

theorem filter_split_length (p : Nat → Bool) (l : List Nat) :
    (l.filter p).length + (l.filter (fun x => !p x)).length = l.length := by
  induction l with
  | nil => rfl
  | cons x xs ih =>
    by_cases h : p x = true
    · simp [List.filter_cons, h]; omega
    · simp [List.filter_cons, h]; omega

theorem combineVal_cons (p : Nat) (ps : List Nat) : combineVal (p :: ps) = p ^^^ combineVal ps := by
  unfold combineVal
  have : ∀ (acc : Nat) (l : List Nat), l.foldl (· ^^^ ·) acc = acc ^^^ l.foldl (· ^^^ ·) 0 := by
    intro acc l
    induction l generalizing acc with
    | nil => simp
    | cons x xs ih =>
      simp only [List.foldl_cons]
      rw [ih (acc ^^^ x), ih (0 ^^^ x), Nat.zero_xor, Nat.xor_assoc]
  simp only [List.foldl_cons, Nat.zero_xor]
  exact this p ps

theorem combineVal_perm {a b : List Nat} (h : a.Perm b) : combineVal a = combineVal b := by
  induction h with
  | nil => rfl
  | cons x _ ih => rw [combineVal_cons, combineVal_cons, ih]
  | swap x y l =>
    rw [combineVal_cons, combineVal_cons, combineVal_cons, combineVal_cons,
      ← Nat.xor_assoc, ← Nat.xor_assoc, Nat.xor_comm y x]
  | trans _ _ ih1 ih2 => rw [ih1, ih2]

theorem combineVal_lt {n : Nat} (ps : List Nat) (h : ∀ p ∈ ps, p < 2 ^ n) : combineVal ps < 2 ^ n := by
  induction ps with
  | nil => simp [combineVal]; exact Nat.pow_pos (by decide)
  | cons p ps ih =>
    rw [combineVal_cons]
    exact Nat.xor_lt_two_pow (h p (by simp)) (ih (fun q hq => h q (by simp [hq])))

end Cardutil.Pin
