import Cardutil.Model.Block1014
/-
  Helper lemmas for the 1014 blocker (C04) and the validating unblocker (C05).
  Everything is stated for a symbolic payload size `P` with `0 < P`.
-/
namespace Cardutil.Block

open Cardutil

/-- eager form: every complete `P`-chunk followed by its trailer, then the partial chunk -/
def E (P : Nat) (d : Bytes) : Bytes :=
  if P ≤ d.length ∧ 0 < P then d.take P ++ PP ++ E P (d.drop P) else d
termination_by d.length
decreasing_by simp [List.length_drop]; omega

/-- one block: chunk, fill, trailer -/
def mkBlock (P : Nat) (c : Bytes) : Bytes := c ++ List.replicate (P - c.length) padByte ++ PP

theorem E_short {P : Nat} {d : Bytes} (h : d.length < P) : E P d = d := by
  rw [E]; simp; omega

theorem E_nil {P : Nat} : E P [] = [] := by
  rw [E, if_neg]; simp

theorem E_exact {P : Nat} (hP : 0 < P) {d : Bytes} (h : d.length = P) : E P d = d ++ PP := by
  rw [E]
  have h1 : P ≤ d.length ∧ 0 < P := by omega
  simp only [h1, and_self, if_true]
  have : d.drop P = [] := by simp [List.drop_eq_nil_iff, h]
  rw [this, E_nil, ← h]; simp

theorem E_append {P : Nat} (hP : 0 < P) (a b : Bytes) (k : Nat) (h : a.length = k * P) :
    E P (a ++ b) = E P a ++ E P b := by
  induction k generalizing a with
  | zero =>
    have : a = [] := by simpa using h
    subst this; simp [E_nil]
  | succ k ih =>
    have hl : P ≤ a.length := by rw [h, Nat.succ_mul]; omega
    rw [E.eq_1 P (a ++ b), E.eq_1 P a]
    have h1 : P ≤ (a ++ b).length ∧ 0 < P := by simp; omega
    have h2 : P ≤ a.length ∧ 0 < P := ⟨hl, hP⟩
    simp only [h1, h2, and_self, if_true]
    rw [List.take_append_of_le_length hl, List.drop_append_of_le_length hl]
    rw [ih (a.drop P) (by simp [List.length_drop, h, Nat.succ_mul])]
    simp [List.append_assoc]

/-- specification of the inner `while` loop of `Block1014.write` -/
theorem wloop_spec {P : Nat} (hP : 0 < P) (b : Bytes) :
    ∃ c k, b = c ++ (wloop P b).2 ∧ c.length = k * P ∧ E P c = (wloop P b).1 ∧
      (wloop P b).2.length ≤ P ∧ (b ≠ [] → (wloop P b).2 ≠ []) := by
  induction b using wloop.induct (P := P) with
  | case1 b hc ih =>
    obtain ⟨c, k, hb, hk, hE, hle, hne⟩ := ih
    rw [wloop]; simp only [hc, and_self, if_true]
    refine ⟨b.take P ++ c, k + 1, ?_, ?_, ?_, hle, ?_⟩
    · rw [List.append_assoc, ← hb]; simp
    · simp [List.length_take, hk, Nat.succ_mul]; omega
    · have ht : (b.take P).length = 1 * P := by simp [List.length_take]; omega
      rw [E_append hP _ _ 1 ht, E_exact hP (by simp [List.length_take]; omega), hE]
    · intro _
      apply hne
      intro h0
      have : (b.drop P).length = 0 := by simp [h0]
      simp [List.length_drop] at this; omega
  | case2 b hc =>
    rw [wloop]; simp only [hc, if_false]
    refine ⟨[], 0, by simp, by simp, E_nil, ?_, fun h => h⟩
    simp at hc ⊢; omega

/-- The blocker invariant: the data written so far splits into whole chunks `d1` (already
    emitted with their trailers) and the current chunk `d2`; `remaining_chars = P - |d2|`.
    `rem = 0` is the "trailer pending" situation, `rem = P` with `d2 = []` is "trailer written". -/
structure Inv (P : Nat) (out : Bytes) (rem : Nat) (d : Bytes) : Prop where
  split : ∃ d1 d2 k, d = d1 ++ d2 ∧ d1.length = k * P ∧ d2.length + rem = P ∧ out = E P d1 ++ d2

theorem inv_init (P : Nat) : Inv P [] P [] :=
  ⟨[], [], 0, by simp, by simp, by simp, by simp [E_nil]⟩

theorem inv_write {P : Nat} (hP : 0 < P) {out : Bytes} {rem : Nat} {d : Bytes} (w : Bytes)
    (h : Inv P out rem d) : Inv P (out ++ (write P rem w).1) (write P rem w).2 (d ++ w) := by
  obtain ⟨d1, d2, k, hd, hk, hr, ho⟩ := h
  unfold write
  by_cases hlt : w.length < rem
  · simp only [hlt, if_true]
    refine ⟨d1, d2 ++ w, k, by simp [hd], hk, by simp; omega, by simp [ho]⟩
  · simp only [hlt, if_false]
    obtain ⟨c, j, hb, hj, hE, hle, _⟩ := wloop_spec hP (w.drop rem)
    have hfull : (d2 ++ w.take rem).length = P := by simp [List.length_take]; omega
    have hfull1 : (d2 ++ w.take rem).length = 1 * P := by omega
    have h1 : (d1 ++ (d2 ++ w.take rem)).length = (k + 1) * P := by
      rw [List.length_append, hk, hfull, Nat.succ_mul]
    refine ⟨d1 ++ (d2 ++ w.take rem) ++ c, (wloop P (w.drop rem)).2, k + 1 + j, ?_, ?_, ?_, ?_⟩
    · have : w = w.take rem ++ w.drop rem := (List.take_append_drop rem w).symm
      conv => lhs; rw [hd, this, hb]
      simp [List.append_assoc]
    · rw [List.length_append, h1, hj]; simp [Nat.add_mul]
    · omega
    · rw [E_append hP _ c (k + 1) h1, E_append hP d1 _ k hk, E_exact hP hfull, hE, ho]
      simp [List.append_assoc]

theorem inv_writes {P : Nat} (hP : 0 < P) (ws : List Bytes) {out : Bytes} {rem : Nat} {d : Bytes}
    (h : Inv P out rem d) :
    Inv P (out ++ (writes P rem ws).1) (writes P rem ws).2 (d ++ ws.flatten) := by
  induction ws generalizing out rem d with
  | nil => simpa [writes] using h
  | cons w ws ih =>
    have := ih (inv_write hP w h)
    simpa [writes, List.append_assoc] using this

/-! ### blockify -/

theorem blockify_nil {P : Nat} : blockify P [] = [] := by rw [blockify]; simp

theorem blockify_short {P : Nat} {d : Bytes} (h0 : d ≠ []) (h : d.length ≤ P) :
    blockify P d = mkBlock P d := by
  rw [blockify]
  have : d.length ≠ 0 := by simpa using h0
  simp only [this, if_false]
  have : ¬ (P < d.length ∧ 0 < P) := by omega
  simp only [this, if_false, mkBlock]

theorem blockify_append {P : Nat} (hP : 0 < P) (a b : Bytes) (k : Nat) (h : a.length = k * P)
    (hb : b ≠ []) : blockify P (a ++ b) = E P a ++ blockify P b := by
  induction k generalizing a with
  | zero =>
    have : a = [] := by simpa using h
    subst this; simp [E_nil]
  | succ k ih =>
    have hl : P ≤ a.length := by rw [h, Nat.succ_mul]; omega
    have hbl : 0 < b.length := List.length_pos_iff.mpr hb
    rw [blockify, E.eq_1 P a]
    have h0 : (a ++ b).length ≠ 0 := by rw [List.length_append]; omega
    have h1 : P < (a ++ b).length ∧ 0 < P := by rw [List.length_append]; omega
    have h2 : P ≤ a.length ∧ 0 < P := ⟨hl, hP⟩
    simp only [h0, h1, h2, and_self, if_true, if_false]
    rw [List.take_append_of_le_length hl, List.drop_append_of_le_length hl]
    rw [ih (a.drop P) (by simp [List.length_drop, h, Nat.succ_mul])]
    simp [List.append_assoc]

theorem blockify_full {P : Nat} (hP : 0 < P) (a : Bytes) (k : Nat) (h : a.length = k * P) :
    blockify P a = E P a := by
  induction k generalizing a with
  | zero =>
    have : a = [] := by simpa using h
    subst this; simp [E_nil, blockify_nil]
  | succ k ih =>
    -- split off the last chunk
    have hl : k * P ≤ a.length := by rw [h, Nat.succ_mul]; omega
    have hs : a = a.take (k * P) ++ a.drop (k * P) := (List.take_append_drop _ a).symm
    have ht : (a.take (k * P)).length = k * P := by simp [List.length_take]; omega
    have hd : (a.drop (k * P)).length = P := by simp [List.length_drop, h, Nat.succ_mul]
    have hne : a.drop (k * P) ≠ [] := by
      intro h0; rw [h0] at hd; simp at hd; omega
    rw [hs, blockify_append hP _ _ k ht hne, E_append hP _ _ k ht,
      blockify_short hne (by omega), E_exact hP hd]
    simp [mkBlock, hd]

/-- the finalised stream, in terms of the invariant -/
theorem final_of_inv {P : Nat} (hP : 0 < P) {out : Bytes} {rem : Nat} {d : Bytes}
    (h : Inv P out rem d) :
    out ++ (finalise P rem).1 =
      blockify P d ++ (if rem = P then fillBlock P else []) := by
  obtain ⟨d1, d2, k, hd, hk, hr, ho⟩ := h
  by_cases hrem : rem = P
  · have h2 : d2 = [] := by
      have : d2.length = 0 := by omega
      simpa using this
    subst h2
    simp only [List.append_nil] at hd ho
    subst hd
    simp [hrem, finalise, fillBlock, ho, blockify_full hP d k hk]
  · have hne : d2 ≠ [] := by
      intro h0; subst h0; simp at hr; omega
    simp only [hrem, if_false, List.append_nil]
    rw [hd, blockify_append hP d1 d2 k hk hne, blockify_short hne (by omega), ho]
    have : P - d2.length = rem := by omega
    simp [finalise, mkBlock, this, PP, List.replicate_succ', List.append_assoc]

/-! ### facts about `blockify` output, `payloads`, `wellBlocked`, `unblock` -/

theorem length_mkBlock {P : Nat} {c : Bytes} (h : c.length ≤ P) : (mkBlock P c).length = P + 2 := by
  simp [mkBlock, PP]; omega

/-- a list of `P+2`-byte blocks, each ending in the trailer -/
def Blocks (P : Nat) (bs : List Bytes) : Prop := ∀ b ∈ bs, b.length = P + 2 ∧ b.drop P = PP

theorem length_flatten_blocks {P : Nat} {bs : List Bytes} (h : Blocks P bs) :
    bs.flatten.length = bs.length * (P + 2) := by
  induction bs with
  | nil => simp
  | cons b bs ih =>
    have hb := (h b (by simp)).1
    have := ih (fun x hx => h x (by simp [hx]))
    simp [hb, this, Nat.succ_mul]; omega

theorem payloads_cons {P : Nat} {b : Bytes} (rest : Bytes) (hb : b.length = P + 2) :
    payloads P (b ++ rest) = b.take P ++ payloads P rest := by
  rw [payloads]
  have h0 : (b ++ rest).length ≠ 0 := by simp [hb]
  simp only [h0, if_false]
  rw [List.take_append_of_le_length (by omega), List.drop_append_of_le_length (by omega)]
  have : b.drop (P + 2) = [] := by simp [List.drop_eq_nil_iff, hb]
  rw [this, List.nil_append]

theorem wellBlocked_cons {P : Nat} {b : Bytes} (rest : Bytes) (hb : b.length = P + 2) :
    wellBlocked P (b ++ rest) = (b.drop P == PP && wellBlocked P rest) := by
  rw [wellBlocked]
  have h0 : (b ++ rest).length ≠ 0 := by simp [hb]
  have h1 : ¬ (b ++ rest).length < P + 2 := by simp [hb]
  simp only [h0, h1, if_false]
  rw [List.drop_append_of_le_length (by omega), List.drop_append_of_le_length (by omega)]
  have : b.drop (P + 2) = [] := by simp [List.drop_eq_nil_iff, hb]
  rw [this, List.nil_append]
  have h2 : (b.drop P).length = 2 := by simp [List.length_drop, hb]
  rw [List.take_append_of_le_length (by omega), List.take_of_length_le (by omega)]

theorem unblock_cons {P : Nat} {b : Bytes} (rest : Bytes) (hb : b.length = P + 2) :
    unblock P (b ++ rest) =
      (if b.drop P == PP then (unblock P rest).map (b.take P ++ ·) else none) := by
  rw [unblock]
  have h0 : (b ++ rest).length ≠ 0 := by simp [hb]
  have h1 : ¬ (b ++ rest).length < P + 2 := by simp [hb]
  simp only [h0, h1, if_false]
  rw [List.drop_append_of_le_length (by omega), List.drop_append_of_le_length (by omega)]
  have : b.drop (P + 2) = [] := by simp [List.drop_eq_nil_iff, hb]
  rw [this, List.nil_append]
  have h2 : (b.drop P).length = 2 := by simp [List.length_drop, hb]
  rw [List.take_append_of_le_length (by omega), List.take_of_length_le (by omega),
    List.take_append_of_le_length (by omega)]
  by_cases h : b.drop P = PP <;> simp [h, bne_iff_ne]

theorem payloads_blocks {P : Nat} {bs : List Bytes} (h : Blocks P bs) :
    payloads P bs.flatten = (bs.map (List.take P)).flatten := by
  induction bs with
  | nil => rw [payloads]; simp
  | cons b bs ih =>
    have hb := (h b (by simp)).1
    simp only [List.flatten_cons, List.map_cons]
    rw [payloads_cons _ hb, ih (fun x hx => h x (by simp [hx]))]

theorem wellBlocked_blocks {P : Nat} {bs : List Bytes} (h : Blocks P bs) :
    wellBlocked P bs.flatten = true := by
  induction bs with
  | nil => rw [wellBlocked]; simp
  | cons b bs ih =>
    obtain ⟨hb, ht⟩ := h b (by simp)
    simp only [List.flatten_cons]
    rw [wellBlocked_cons _ hb, ih (fun x hx => h x (by simp [hx])), ht]; simp

theorem unblock_blocks {P : Nat} {bs : List Bytes} (h : Blocks P bs) :
    unblock P bs.flatten = some (bs.map (List.take P)).flatten := by
  induction bs with
  | nil => rw [unblock]; simp
  | cons b bs ih =>
    obtain ⟨hb, ht⟩ := h b (by simp)
    simp only [List.flatten_cons, List.map_cons]
    rw [unblock_cons _ hb, ih (fun x hx => h x (by simp [hx])), ht]; simp

/-- payload bytes that survive when a blocked file is cut after `n` bytes:
    `P` per complete block, and what is present of the next block's payload -/
def surv (P n : Nat) : Nat := if n < P + 2 then min n P else P + surv P (n - (P + 2))
termination_by n
decreasing_by omega

theorem surv_le (P n : Nat) : surv P n ≤ n := by
  induction n using surv.induct (P := P) with
  | case1 n h => rw [surv, if_pos h]; omega
  | case2 n h ih => rw [surv, if_neg h]; omega

theorem payloads_nil' (P : Nat) : payloads P [] = [] := by rw [payloads]; simp

theorem payloads_take_blocks {P : Nat} {bs : List Bytes} (h : Blocks P bs) (n : Nat) :
    payloads P (bs.flatten.take n) = ((bs.map (List.take P)).flatten).take (surv P n) := by
  induction bs generalizing n with
  | nil => simp [payloads_nil']
  | cons b bs ih =>
    obtain ⟨hb, _⟩ := h b (by simp)
    have ih' := ih (fun x hx => h x (by simp [hx]))
    simp only [List.flatten_cons, List.map_cons]
    by_cases hn : n < P + 2
    · rw [surv, if_pos hn, List.take_append_of_le_length (by omega)]
      rw [List.take_append_of_le_length (by simp [List.length_take]; omega)]
      by_cases h0 : n = 0
      · subst h0; simp [payloads_nil']
      · rw [payloads]
        have hl : (b.take n).length ≠ 0 := by rw [List.length_take]; omega
        have hd : (b.take n).drop (P + 2) = [] := by
          rw [List.drop_eq_nil_iff, List.length_take]; omega
        simp only [hl, if_false, hd, payloads_nil', List.append_nil, List.take_take]
        congr 1; omega
    · have hL : (b ++ bs.flatten).take n = b ++ bs.flatten.take (n - (P + 2)) := by
        rw [List.take_append, List.take_of_length_le (by omega), hb]
      have hR : (b.take P ++ (bs.map (List.take P)).flatten).take (P + surv P (n - (P + 2))) =
          b.take P ++ ((bs.map (List.take P)).flatten).take (surv P (n - (P + 2))) := by
        have hlp : (b.take P).length = P := by rw [List.length_take]; omega
        rw [List.take_append, List.take_of_length_le (by omega), hlp]
        congr 2; omega
      rw [surv, if_neg hn, hL, hR, payloads_cons _ hb, ih']

theorem length_payloads_blocks {P : Nat} {bs : List Bytes} (h : Blocks P bs) :
    ((bs.map (List.take P)).flatten).length ≤ bs.flatten.length := by
  induction bs with
  | nil => simp
  | cons b bs ih =>
    have := ih (fun x hx => h x (by simp [hx]))
    simp [List.length_take] at this ⊢; omega

/-- chunks of `d`: complete `P`-chunks then the non-empty partial chunk -/
def chunks (P : Nat) (d : Bytes) : List Bytes :=
  if d.length = 0 then []
  else if P < d.length ∧ 0 < P then d.take P :: chunks P (d.drop P)
  else [d]
termination_by d.length
decreasing_by simp [List.length_drop]; omega

theorem chunks_flatten (P : Nat) (d : Bytes) : (chunks P d).flatten = d := by
  induction d using chunks.induct (P := P) with
  | case1 d h => rw [chunks]; simp [h]; simpa using h
  | case2 d h0 hc ih => rw [chunks]; simp [h0, hc, ih]
  | case3 d h0 hc => rw [chunks]; simp [h0, hc]

theorem chunks_le {P : Nat} (hP : 0 < P) (d : Bytes) : ∀ c ∈ chunks P d, 0 < c.length ∧ c.length ≤ P := by
  induction d using chunks.induct (P := P) with
  | case1 d h => rw [chunks]; simp [h]
  | case2 d h0 hc ih =>
    rw [chunks]; simp only [h0, hc, and_self, if_true, if_false]
    intro c hcm
    rcases List.mem_cons.mp hcm with rfl | h
    · simp [List.length_take]; omega
    · exact ih c h
  | case3 d h0 hc =>
    rw [chunks]; simp only [h0, hc, if_false]
    intro c hcm
    have : c = d := by simpa using hcm
    subst this; omega

theorem blockify_eq_chunks {P : Nat} (hP : 0 < P) (d : Bytes) :
    blockify P d = ((chunks P d).map (mkBlock P)).flatten := by
  induction d using chunks.induct (P := P) with
  | case1 d h => rw [chunks, blockify]; simp [h]
  | case2 d h0 hc ih =>
    rw [chunks, blockify]; simp only [h0, hc, and_self, if_true, if_false]
    simp only [List.map_cons, List.flatten_cons, ih]
    have : (d.take P).length = P := by simp [List.length_take]; omega
    simp [mkBlock, this]
  | case3 d h0 hc =>
    rw [chunks, blockify]; simp only [h0, hc, if_false]
    simp [mkBlock]

theorem blocks_mk {P : Nat} (hP : 0 < P) (d : Bytes) : Blocks P ((chunks P d).map (mkBlock P)) := by
  intro b hb
  obtain ⟨c, hc, rfl⟩ := List.mem_map.mp hb
  have hle := (chunks_le hP d c hc).2
  refine ⟨length_mkBlock hle, ?_⟩
  unfold mkBlock
  exact List.drop_left' (by simp; omega)

theorem take_mkBlock {P : Nat} {c : Bytes} (h : c.length ≤ P) :
    (mkBlock P c).take P = c ++ List.replicate (P - c.length) padByte := by
  unfold mkBlock
  rw [List.take_append_of_le_length (by simp; omega)]
  rw [List.take_of_length_le (by simp; omega)]

/-- payloads of the one-shot blocker's output: the data, then only fill -/
theorem payloads_blockify {P : Nat} (hP : 0 < P) (d : Bytes) :
    ∃ k, k < P ∧ (d.length + k) % P = 0 ∧
      payloads P (blockify P d) = d ++ List.replicate k padByte := by
  rw [blockify_eq_chunks hP, payloads_blocks (blocks_mk hP d)]
  induction d using chunks.induct (P := P) with
  | case1 d h =>
    have : d = [] := by simpa using h
    subst this
    exact ⟨0, hP, by simp, by rw [chunks]; simp⟩
  | case2 d h0 hc ih =>
    obtain ⟨k, hk, hm, he⟩ := ih
    refine ⟨k, hk, ?_, ?_⟩
    · simp [List.length_drop] at hm
      have : d.length + k = (d.length - P + k) + P := by omega
      rw [this, Nat.add_mod_right]; exact hm
    · rw [chunks]; simp only [h0, hc, and_self, if_true, if_false]
      simp only [List.map_cons, List.flatten_cons, he]
      have hl : (d.take P).length = P := by simp [List.length_take]; omega
      rw [take_mkBlock (by omega), hl]
      simp [← List.append_assoc, List.take_append_drop]
  | case3 d h0 hc =>
    have hle : d.length ≤ P := by omega
    refine ⟨P - d.length, by omega, ?_, ?_⟩
    · have : d.length + (P - d.length) = P := by omega
      rw [this]; simp
    · rw [chunks]; simp only [h0, hc, if_false]
      simp [take_mkBlock hle]

theorem wellBlocked_blockify {P : Nat} (hP : 0 < P) (d : Bytes) : wellBlocked P (blockify P d) = true := by
  rw [blockify_eq_chunks hP]; exact wellBlocked_blocks (blocks_mk hP d)

theorem blocks_fill (P : Nat) : Blocks P [fillBlock P] := by
  intro b hb
  have : b = fillBlock P := by simpa using hb
  subst this
  simp [fillBlock, PP]

theorem blocks_append {P : Nat} {a b : List Bytes} (ha : Blocks P a) (hb : Blocks P b) : Blocks P (a ++ b) := by
  intro x hx
  rcases List.mem_append.mp hx with h | h
  · exact ha x h
  · exact hb x h

/-- `unblock` succeeds exactly on well-blocked input and then returns the payloads -/
theorem unblock_iff (P : Nat) (f : Bytes) :
    unblock P f = (if wellBlocked P f then some (payloads P f) else none) := by
  induction f using unblock.induct (P := P) with
  | case1 f h => rw [unblock, wellBlocked, payloads]; simp [h]
  | case2 f h0 h1 => rw [unblock, wellBlocked]; simp [h0, h1]
  | case3 f h0 h1 h2 =>
    rw [unblock, wellBlocked]; simp only [h0, h1, h2, if_false, if_true]
    have : ((f.drop P).take 2 == PP) = false := by simpa [bne_iff_ne] using h2
    simp [this]
  | case4 f h0 h1 h2 ih =>
    rw [unblock, wellBlocked, payloads]; simp only [h0, h1, h2, if_false]
    have : ((f.drop P).take 2 == PP) = true := by simpa [bne_iff_ne] using h2
    rw [ih, this]
    by_cases hw : wellBlocked P (f.drop (P + 2)) = true <;> simp [hw]

end Cardutil.Block
