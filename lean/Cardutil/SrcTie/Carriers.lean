import Cardutil.SrcTie.Base
import Cardutil.Gen.Src
/-
  Source tie for the PDS-carrier statements of `iso8583._dict_to_iso8583` (C12): the configured PDS elements
  (`[int(key) for key in bit_config if bit_config[key].get('field_processor') == 'PDS']`, `sorted(..., reverse=True)`),
  and the loop `for de_field_value in _pds_to_de(message): de_field_key = de_pds_fields.pop(); message[f'DE{…}'] = …`,
  translated from the current source on a message whose values are texts.  The translated statements give the packed
  strings to the configured carriers in ASCENDING order of element number, one each, and end in IndexError exactly when
  there are more strings than carriers.
-/
namespace Cardutil.SrcTie

open Cardutil Cardutil.Py

def pdsName : Text := [80, 68, 83]

/-- `'DE' + str(n)` -/
def carrierKey (c : Int) : Text := [68, 69] ++ Rt.strOfInt c

/-- the packed strings handed to the carriers, first string to the first carrier; more strings than carriers: IndexError -/
def srcAssign : List Int → List Text → Rt.SDict Text → Outcome (Rt.SDict Text)
  | _, [], m => .ok m
  | [], _ :: _, _ => .escape .indexError
  | c :: cs, t :: ts, m => srcAssign cs ts (Rt.dictSet m (carrierKey c) t)

theorem srcAssign_nil (asc : List Int) (m : Rt.SDict Text) : srcAssign asc [] m = .ok m := by
  cases asc <;> rfl

/-- the keys of the configuration whose entry names the PDS processor, in configuration order -/
def pdsKeys (cfg : Rt.SDict Rt.BitCfg) : List Text :=
  (Rt.dictKeys cfg).filter (fun k => match Rt.dictGetOpt cfg k with
    | some e => e.field_processor == pdsName
    | none => false)

theorem filterO_total {α} (p : α → Outcome Bool) (q : α → Bool) (l : List α) (h : ∀ x ∈ l, p x = .ok (q x)) :
    Rt.filterO p l = .ok (l.filter q) := by
  induction l with
  | nil => rfl
  | cons x xs ih =>
    rw [Rt.filterO, h x (by simp), bind_ok_eq, ih (fun y hy => h y (by simp [hy])), bind_ok_eq]
    cases hq : q x <;> simp [List.filter, hq]

theorem dictGet_of_key {β} (d : Rt.SDict β) (k : Text) (h : k ∈ Rt.dictKeys d) :
    ∃ e, Rt.dictGet d k = .ok e ∧ Rt.dictGetOpt d k = some e := by
  unfold Rt.dictKeys at h
  unfold Rt.dictGet Rt.dictGetOpt
  cases hf : d.find? (·.1 == k) with
  | some kv => exact ⟨kv.2, rfl, rfl⟩
  | none =>
    exfalso
    obtain ⟨kv, hkv, hk⟩ := List.mem_map.mp h
    have := List.find?_eq_none.mp hf kv hkv
    simp [hk] at this

theorem popLast_concat {α} (l : List α) (x : α) : Rt.popLast (l ++ [x]) = .ok (x, l) := by
  unfold Rt.popLast
  simp

theorem popLast_nil {α} : Rt.popLast ([] : List α) = .escape .indexError := rfl

/-- the carrier loop: popping from the end of the descending list hands the strings to the carriers in ascending order -/
theorem pop_loop (chunks : List Text) : ∀ (asc : List Int) (m : Rt.SDict Text),
    (Rt.forO (fun (st : List Int × Rt.SDict Text) (v : Text) =>
        Outcome.bind (Rt.popLast st.1) (fun pr => .ok (pr.2, Rt.dictSet st.2 ([68, 69] ++ Rt.strOfInt pr.1) v)))
      chunks (asc.reverse, m)).bind (fun st => .ok st.2) = srcAssign asc chunks m := by
  induction chunks with
  | nil => intro asc m; rw [srcAssign_nil]; rfl
  | cons t ts ih =>
    intro asc m
    rw [Rt.forO]
    cases asc with
    | nil => rfl
    | cons c cs =>
      simp only [List.reverse_cons, popLast_concat, bind_ok_eq]
      exact ih cs _

/-- the translated carrier statements -/
theorem carriers_eq (message : Rt.SDict Text) (cfg : Rt.SDict Rt.BitCfg) :
    Src._dict_to_iso8583_carriers message cfg =
      (Outcome.mapO (Rt.intOfStr Gen.intClasses) (pdsKeys cfg)).bind (fun ns =>
        (Src._pds_to_de message).bind (fun chunks =>
          srcAssign (Rt.sortedIntDesc ns).reverse chunks message)) := by
  unfold Src._dict_to_iso8583_carriers
  have hf : Rt.filterO (fun (key : Text) => Outcome.bind (Rt.dictGet cfg key) (fun t1 =>
      .ok (t1.field_processor == [80, 68, 83]))) (Rt.dictKeys cfg) = .ok (pdsKeys cfg) := by
    unfold pdsKeys
    apply filterO_total
    intro k hk
    obtain ⟨e, h1, h2⟩ := dictGet_of_key cfg k hk
    rw [h1, h2]
    rfl
  rw [hf, bind_ok_eq]
  refine congrArg (Outcome.bind _) (funext fun ns => ?_)
  refine congrArg (Outcome.bind _) (funext fun chunks => ?_)
  have := pop_loop chunks (Rt.sortedIntDesc ns).reverse message
  rw [List.reverse_reverse] at this
  exact this

/-! ### what the order is -/

theorem insertIntDesc_perm (x : Int) (l : List Int) : (Rt.insertIntDesc x l).Perm (x :: l) := by
  induction l with
  | nil => exact List.Perm.refl _
  | cons y ys ih =>
    rw [Rt.insertIntDesc]
    split
    · exact (List.Perm.cons y ih).trans (List.Perm.swap x y ys)
    · exact List.Perm.refl _

theorem sortedIntDesc_perm (l : List Int) : (Rt.sortedIntDesc l).Perm l := by
  induction l with
  | nil => exact List.Perm.refl _
  | cons x xs ih =>
    show (Rt.insertIntDesc x (Rt.sortedIntDesc xs)).Perm (x :: xs)
    exact (insertIntDesc_perm x _).trans (List.Perm.cons x ih)

theorem insertIntDesc_sorted (x : Int) (l : List Int) (h : l.Pairwise (· ≥ ·)) :
    (Rt.insertIntDesc x l).Pairwise (· ≥ ·) := by
  induction l with
  | nil => simp [Rt.insertIntDesc]
  | cons y ys ih =>
    rw [Rt.insertIntDesc]
    have hp := List.pairwise_cons.mp h
    split
    · rename_i hxy
      refine List.pairwise_cons.mpr ⟨?_, ih hp.2⟩
      intro z hz
      have := (insertIntDesc_perm x ys).mem_iff.mp hz
      rcases List.mem_cons.mp this with e | hm
      · subst e; exact hxy
      · exact hp.1 z hm
    · rename_i hxy
      refine List.pairwise_cons.mpr ⟨?_, h⟩
      intro z hz
      rcases List.mem_cons.mp hz with e | hm
      · subst e; omega
      · have := hp.1 z hm; omega

theorem sortedIntDesc_sorted (l : List Int) : (Rt.sortedIntDesc l).Pairwise (· ≥ ·) := by
  induction l with
  | nil => exact List.Pairwise.nil
  | cons x xs ih => exact insertIntDesc_sorted x _ ih

/-- the carriers are taken in ASCENDING order of element number, and they are exactly the configured PDS elements -/
theorem carriers_ascending (ns : List Int) :
    ((Rt.sortedIntDesc ns).reverse).Pairwise (· ≤ ·) ∧ ((Rt.sortedIntDesc ns).reverse).Perm ns := by
  refine ⟨?_, (List.reverse_perm _).trans (sortedIntDesc_perm ns)⟩
  rw [List.pairwise_reverse]
  exact (sortedIntDesc_sorted ns).imp (fun h => h)

theorem srcAssign_overflow : ∀ (asc : List Int) (chunks : List Text) (m : Rt.SDict Text),
    asc.length < chunks.length → srcAssign asc chunks m = .escape .indexError
  | [], [], _, h => by simp at h
  | [], _ :: _, _, _ => rfl
  | _ :: _, [], _, h => by simp at h
  | _ :: cs, _ :: ts, m, h => by
    rw [srcAssign]
    exact srcAssign_overflow cs ts _ (by simpa using h)

theorem srcAssign_fits : ∀ (asc : List Int) (chunks : List Text) (m : Rt.SDict Text),
    chunks.length ≤ asc.length →
    srcAssign asc chunks m = .ok ((asc.zip chunks).foldl (fun acc p => Rt.dictSet acc (carrierKey p.1) p.2) m)
  | _, [], _, _ => by cases ‹List Int› <;> rfl
  | [], _ :: _, _, h => by simp at h
  | c :: cs, t :: ts, m, h => by
    rw [srcAssign, srcAssign_fits cs ts _ (by simpa using h)]
    rfl

/-- C12 for the carrier statements as translated: with `ns` the configured PDS element numbers and `chunks` the packed
    strings, (a) when the strings fit, string i is stored under 'DE' + str(i-th smallest PDS element) and nothing else
    is touched; (b) one string too many ends in IndexError -/
theorem C12_source_carriers (message : Rt.SDict Text) (cfg : Rt.SDict Rt.BitCfg) (ns : List Int) (chunks : List Text)
    (hn : Outcome.mapO (Rt.intOfStr Gen.intClasses) (pdsKeys cfg) = .ok ns) (hc : Src._pds_to_de message = .ok chunks) :
    (chunks.length ≤ ns.length → Src._dict_to_iso8583_carriers message cfg =
        .ok ((((Rt.sortedIntDesc ns).reverse).zip chunks).foldl (fun acc p => Rt.dictSet acc (carrierKey p.1) p.2) message)) ∧
    (ns.length < chunks.length → Src._dict_to_iso8583_carriers message cfg = .escape .indexError) := by
  rw [carriers_eq, hn, bind_ok_eq, hc, bind_ok_eq]
  have hl : ((Rt.sortedIntDesc ns).reverse).length = ns.length := by
    rw [List.length_reverse]; exact (sortedIntDesc_perm ns).length_eq
  constructor
  · intro h
    exact srcAssign_fits _ _ _ (by rw [hl]; exact h)
  · intro h
    exact srcAssign_overflow _ _ _ (by rw [hl]; exact h)

/-- a message without PDS entries is returned as it is, whatever the configuration says -/
theorem C12_source_no_pds_untouched (message : Rt.SDict Text) (cfg : Rt.SDict Rt.BitCfg) (ns : List Int)
    (hn : Outcome.mapO (Rt.intOfStr Gen.intClasses) (pdsKeys cfg) = .ok ns) (hc : Src._pds_to_de message = .ok []) :
    Src._dict_to_iso8583_carriers message cfg = .ok message := by
  rw [carriers_eq, hn, bind_ok_eq, hc, bind_ok_eq, srcAssign_nil]

/-- the statements on a concrete message (evaluated by the kernel): two PDS carriers configured out of order, one packed
    string — it goes to DE48, the smaller of the two -/
example : Src._dict_to_iso8583_carriers [(Rt.lit "MTI", Rt.lit "1144"), (Rt.lit "PDS0001", Rt.lit "AB")]
    [(Rt.lit "62", {field_type := Rt.lit "LLLVAR", field_length := 0, field_processor := Rt.lit "PDS"}),
     (Rt.lit "2", {field_type := Rt.lit "LLVAR", field_length := 0}),
     (Rt.lit "48", {field_type := Rt.lit "LLLVAR", field_length := 0, field_processor := Rt.lit "PDS"})] =
  .ok [(Rt.lit "MTI", Rt.lit "1144"), (Rt.lit "PDS0001", Rt.lit "AB"), (Rt.lit "DE48", Rt.lit "0001002AB")] := by
  decide +kernel

end Cardutil.SrcTie
