import Cardutil.SrcTie.Block
import Cardutil.Model.Vbs
import Cardutil.Gen.Limits
import Cardutil.Props.C03
import Cardutil.Props.C09
/-
  Source tie for `mciipm.VbsReader.__next__` over a plain byte source (C03, C09, C10): the state is
  (`record_number`, `last_record`, bytes not yet read); `raise StopIteration` and
  `raise MciIpmDataError(…, record_number=…, binary_context_data=…)` are results (`Rt.Signal`).
  The translated method IS the model's `Vbs.next plainSrc` at the configured maximum.
-/
namespace Cardutil.SrcTie

open Cardutil Cardutil.Py Cardutil.Vbs

/-- the model's step as the translated method would report it -/
def stepSignal (s : Step Bytes) : Rt.Signal (Bytes × (Int × (Bytes × Bytes))) :=
  match s with
  | .record r st => .ret (r, ((st.recno : Int), (st.last.getD [], st.src)))
  | .done .eof => .stop
  | .done (.dataError n ctx) => .libError (n : Int) ctx
  | .done _ => .stop

theorem be32_eq : ∀ l : Bytes, Rt.be32 l = be32dec l
  | [] => rfl
  | [_] => rfl
  | [_, _] => rfl
  | [_, _, _] => rfl
  | [_, _, _, _] => rfl
  | _ :: _ :: _ :: _ :: _ :: _ => rfl

/-- what the method does once the four length bytes `hdr` (value `n`) are read and `rest` remains -/
theorem reader_core (recno : Nat) (hdr rest : Bytes) (n maxLen : Nat) :
    (if (decide (((n : Nat) : Int) < (0 : Int)) || decide (((n : Nat) : Int) > ((maxLen : Nat) : Int))) then
        (.ok (Rt.Signal.libError (recno : Int) hdr) : Outcome (Rt.Signal (Bytes × (Int × (Bytes × Bytes)))))
      else if (((n : Nat) : Int) == (0 : Int)) then .ok Rt.Signal.stop
      else if (Rt.len (Rt.readN rest ((n : Nat) : Int)).1 != ((n : Nat) : Int)) then
        .ok (Rt.Signal.libError (recno : Int) (hdr ++ (Rt.readN rest ((n : Nat) : Int)).1))
      else .ok (Rt.Signal.ret ((Rt.readN rest ((n : Nat) : Int)).1,
              ((recno : Int) + 1, (hdr ++ (Rt.readN rest ((n : Nat) : Int)).1, (Rt.readN rest ((n : Nat) : Int)).2))))) =
      .ok (stepSignal
        (if maxLen < n then Step.done (End.dataError recno hdr)
         else if n = 0 then Step.done End.eof
         else if (rest.take n).length ≠ n then Step.done (End.dataError recno (hdr ++ rest.take n))
         else Step.record (rest.take n) { src := rest.drop n, recno := recno + 1, last := some (hdr ++ rest.take n) })) := by
  have hneg : decide (((n : Nat) : Int) < 0) = false := by simp
  by_cases hmax : maxLen < n
  · have hgt : decide (((n : Nat) : Int) > ((maxLen : Nat) : Int)) = true := by simp; omega
    simp only [hneg, hgt, Bool.false_or, if_true, hmax, stepSignal]
  · have hgt : decide (((n : Nat) : Int) > ((maxLen : Nat) : Int)) = false := by simp; omega
    simp only [hneg, hgt, Bool.false_or, Bool.false_eq_true, if_false, hmax]
    by_cases h0 : n = 0
    · subst h0
      simp [stepSignal]
    · have hz : (((n : Nat) : Int) == (0 : Int)) = false := by simp; omega
      simp only [hz, Bool.false_eq_true, if_false, h0]
      have hread : Rt.readN rest ((n : Nat) : Int) = (rest.take n, rest.drop n) := by
        unfold Rt.readN
        have : ¬ (((n : Nat) : Int) < 0) := by omega
        simp [this]
      rw [hread]
      simp only []
      by_cases hlen : (rest.take n).length = n
      · have hl2 : (Rt.len (rest.take n) != ((n : Nat) : Int)) = false := by
          unfold Rt.len; rw [hlen]; simp
        simp only [hl2, Bool.false_eq_true, if_false, hlen, ne_eq, not_true_eq_false, stepSignal, Option.getD_some]
        rfl
      · have hl2 : (Rt.len (rest.take n) != ((n : Nat) : Int)) = true := by
          simp only [Rt.len, bne_iff_ne, ne_eq]; omega
        simp only [hl2, if_true, hlen, ne_eq, not_false_eq_true, stepSignal]

/-- `VbsReader.__next__` on a plain byte source -/
theorem reader_next_eq (recno : Nat) (last : Option Bytes) (src : Bytes) :
    Src.VbsReader_next (recno : Int) (last.getD []) src =
      .ok (stepSignal (next plainSrc Gen.maxVbsRecordLength ⟨src, recno, last⟩)) := by
  unfold Src.VbsReader_next next plainSrc
  simp only [slice_to _ _ (show (0 : Int) ≤ 4 by decide), slice_from _ _ (show (0 : Int) ≤ 4 by decide)]
  have e4 : (4 : Int).toNat = 4 := rfl
  rw [e4]
  by_cases hl : (src.take 4).length = 4
  · have h1 : (Rt.len (src.take 4) != (4 : Int)) = false := by
      unfold Rt.len; rw [hl]; rfl
    simp only [h1, Bool.false_eq_true, if_false, hl, ne_eq, not_true_eq_false, Rt.unpackI, if_true, Outcome.bind,
      be32_eq]
    exact reader_core recno (src.take 4) (src.drop 4) (be32dec (src.take 4)) Gen.maxVbsRecordLength
  · have h1 : (Rt.len (src.take 4) != (4 : Int)) = true := by
      simp only [Rt.len, bne_iff_ne, ne_eq]; omega
    simp only [h1, if_true, hl, ne_eq, not_false_eq_true, stepSignal]

/-! ### iterating the translated method -/

/-- `list(reader)` with the translated `__next__`: records delivered, and how the iteration ended -/
def srcReadAll : Nat → Int × (Bytes × Bytes) → List Bytes × End
  | 0, _ => ([], .fuel)
  | fuel + 1, st =>
    match Src.VbsReader_next st.1 st.2.1 st.2.2 with
    | .ok (.ret r) => let x := srcReadAll fuel r.2; (r.1 :: x.1, x.2)
    | .ok .stop => ([], .eof)
    | .ok (.libError n ctx) => ([], .dataError n.toNat ctx)
    | .dataError => ([], .escape .other)
    | .escape k => ([], .escape k)
    | .diverge => ([], .diverge)

theorem src_read_all_eq : ∀ (fuel recno : Nat) (last : Option Bytes) (src : Bytes),
    srcReadAll fuel ((recno : Int), (last.getD [], src)) =
      readAll plainSrc Gen.maxVbsRecordLength fuel ⟨src, recno, last⟩ := by
  intro fuel
  induction fuel with
  | zero => intros; rfl
  | succ fuel ih =>
    intro recno last src
    rw [srcReadAll, readAll]
    simp only [reader_next_eq]
    cases hs : next plainSrc Gen.maxVbsRecordLength ⟨src, recno, last⟩ with
    | record r st =>
      simp only [stepSignal]
      have := ih st.recno st.last st.src
      rw [this]
    | done e =>
      cases e with
      | eof => simp [stepSignal]
      | dataError n ctx => simp [stepSignal]
      | escape k => exfalso; unfold next at hs; simp only [] at hs; split at hs <;> (try split at hs) <;> (try split at hs) <;> (try split at hs) <;> simp at hs
      | diverge => exfalso; unfold next at hs; simp only [] at hs; split at hs <;> (try split at hs) <;> (try split at hs) <;> (try split at hs) <;> simp at hs
      | fuel => exfalso; unfold next at hs; simp only [] at hs; split at hs <;> (try split at hs) <;> (try split at hs) <;> (try split at hs) <;> simp at hs

/-- C03 for the code as translated (unblocked): iterating the translated `__next__` over the file
    the writer produces returns exactly the records written, then end of data — any number of
    non-empty records up to the configured maximum -/
theorem C03_source_read (recs : List Bytes) (hmax : Gen.maxVbsRecordLength < 4294967296)
    (h : ∀ r ∈ recs, 0 < r.length ∧ r.length ≤ Gen.maxVbsRecordLength) :
    srcReadAll ((Writer.listToBytes 1012 false recs).length + 1) ((1 : Int), ([], Writer.listToBytes 1012 false recs)) =
      (recs, .eof) := by
  have h1 := src_read_all_eq ((Writer.listToBytes 1012 false recs).length + 1) 1 none (Writer.listToBytes 1012 false recs)
  simp only [Option.getD_none] at h1
  rw [show ((1 : Nat) : Int) = (1 : Int) from rfl] at h1
  rw [h1]
  have := Props.C03.C03_roundtrip_unblocked Gen.maxVbsRecordLength hmax recs h
  simpa [vbsBytesToList, Vbs.init] using this

end Cardutil.SrcTie
