import Cardutil.SrcTie.Card
import Cardutil.SrcTie.Misc
/-
  Source tie for what the element decoder does with the decoded text of a card-number element (C16): the statements of
  `iso8583._iso8583_to_field` from `if field_processor == 'PAN':` up to `return_values = dict()` — the PAN processor
  (the masked form), the PAN-PREFIX processor (the leading digits), then the typed conversion under its handler.
  What leaves these statements is a function of the MASKED value (the prefix) only: two card numbers that differ only in
  the digits the mask hides give the same decoded value — the hidden digits do not reach the result by any path.
-/
namespace Cardutil.SrcTie

open Cardutil Cardutil.Py

def panName : Text := [80, 65, 78]
def panPrefixName : Text := [80, 65, 78, 45, 80, 82, 69, 70, 73, 88]

/-- the typed conversion under the decoder's handler (ValueError / InvalidOperation become the library's data error) -/
def convert (t : Text) (cfg : Rt.BitCfg) : Outcome Rt.PyVal :=
  Rt.catchData [.valueError, .decimalError] (Src._string_to_pytype t cfg)

theorem value_pan (d : Text) (cfg : Rt.BitCfg) (bit : Int) :
    Src._iso8583_to_field_value d panName cfg bit = convert (Card.mask d 42) cfg := by
  unfold Src._iso8583_to_field_value convert panName
  have h1 : (([80, 65, 78] : Text) == [80, 65, 78]) = true := by decide
  have h2 : (([80, 65, 78] : Text) == [80, 65, 78, 45, 80, 82, 69, 70, 73, 88]) = false := by decide
  simp only [h1, h2, if_true, Bool.false_eq_true, if_false, mask_eq]
  exact bind_ok_right _

theorem value_pan_prefix (d : Text) (cfg : Rt.BitCfg) (bit : Int) :
    Src._iso8583_to_field_value d panPrefixName cfg bit = convert (Card.panPrefix d) cfg := by
  unfold Src._iso8583_to_field_value convert panPrefixName
  have h1 : (([80, 65, 78, 45, 80, 82, 69, 70, 73, 88] : Text) == [80, 65, 78]) = false := by decide
  have h2 : (([80, 65, 78, 45, 80, 82, 69, 70, 73, 88] : Text) == [80, 65, 78, 45, 80, 82, 69, 70, 73, 88]) = true := by decide
  simp only [h1, h2, if_true, Bool.false_eq_true, if_false, pan_prefix_eq]
  exact bind_ok_right _

theorem value_plain (d p : Text) (cfg : Rt.BitCfg) (bit : Int) (h1 : p ≠ panName) (h2 : p ≠ panPrefixName) :
    Src._iso8583_to_field_value d p cfg bit = convert d cfg := by
  unfold Src._iso8583_to_field_value convert
  have e1 : (p == [80, 65, 78]) = false := by rw [beq_eq_false_iff_ne]; exact h1
  have e2 : (p == [80, 65, 78, 45, 80, 82, 69, 70, 73, 88]) = false := by rw [beq_eq_false_iff_ne]; exact h2
  simp only [e1, e2, Bool.false_eq_true, if_false]
  exact bind_ok_right _

/-- two card numbers of the same length that agree on the first six and the last four characters have the same mask -/
theorem mask_congr (a b : Text) (m : Nat) (hl : a.length = b.length) (h6 : a.take 6 = b.take 6)
    (h4 : a.drop (a.length - 4) = b.drop (b.length - 4)) : Card.mask a m = Card.mask b m := by
  unfold Card.mask
  rw [h6, h4, hl]

/-- C16 for the decoder's statements as translated, PAN processor: the hidden digits do not reach the decoded value — two
    card numbers that differ only between the first six and the last four characters decode to the SAME value
    (whatever the element's configured type), and that value is the conversion of the masked form -/
theorem C16_source_hidden_digits_do_not_matter (a b : Text) (cfg : Rt.BitCfg) (bit : Int)
    (hl : a.length = b.length) (h6 : a.take 6 = b.take 6) (h4 : a.drop (a.length - 4) = b.drop (b.length - 4)) :
    Src._iso8583_to_field_value a panName cfg bit = Src._iso8583_to_field_value b panName cfg bit := by
  rw [value_pan, value_pan, mask_congr a b 42 hl h6 h4]

/-- … and for the PAN-PREFIX processor nothing beyond the first nine characters matters -/
theorem C16_source_prefix_only (a b : Text) (cfg : Rt.BitCfg) (bit : Int) (h9 : a.take 9 = b.take 9) :
    Src._iso8583_to_field_value a panPrefixName cfg bit = Src._iso8583_to_field_value b panPrefixName cfg bit := by
  rw [value_pan_prefix, value_pan_prefix]
  unfold Card.panPrefix
  rw [h9]

/-- for a text element (no typed conversion configured) the decoded value IS the masked form -/
theorem C16_source_text_value_is_mask (d : Text) (cfg : Rt.BitCfg) (bit : Int)
    (hc : Src._string_to_pytype (Card.mask d 42) cfg = .ok (.str (Card.mask d 42))) :
    Src._iso8583_to_field_value d panName cfg bit = .ok (.str (Card.mask d 42)) := by
  rw [value_pan]
  unfold convert
  rw [hc]
  rfl

end Cardutil.SrcTie
