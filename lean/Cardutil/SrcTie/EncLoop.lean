import Cardutil.SrcTie.Bits
import Cardutil.Gen.Src
/-
  Source tie for the ELEMENT LOOP and the ASSEMBLY of `iso8583._dict_to_iso8583` (C02): the function without its
  PDS-packing statements (the message is the one packing leaves), translated from the current source with the
  element encoder `_field_to_iso8583` as a PARAMETER (any function of its type).  Proved here, for the loop as
  written and whatever the element encoder does: when it returns, the bytes are the MTI, then the bitmap whose
  bit 1 is on and whose bit n is on exactly when element n is present, then the present elements in ascending
  order, each as the encoder rendered it.
-/
namespace Cardutil.SrcTie

open Cardutil Cardutil.Py

abbrev FieldEnc := Rt.BitCfg → Option Rt.AnyVal → (Text → Outcome Bytes) → Outcome Bytes

/-- the key `'DE' + str(bit)` -/
def deKey (bit : Int) : Text := [68, 69] ++ Rt.strOfInt bit

/-- the presence test of the loop: `message.get(k) or message.get(k) == 0` -/
def isPresent (message : Rt.SDict Rt.AnyVal) (bit : Int) : Bool :=
  Rt.truthyOpt (Rt.dictGetOpt message (deKey bit)) || Rt.eqZeroOpt (Rt.dictGetOpt message (deKey bit))

/-- the loop body as translated (state = presence flags and output so far) -/
def encStep (F : FieldEnc) (message : Rt.SDict Rt.AnyVal) (cfg : Rt.SDict Rt.BitCfg) (enc : Text → Outcome Bytes)
    (st : List Bool × Bytes) (bit : Int) : Outcome (List Bool × Bytes) :=
  if isPresent message bit then
    Outcome.bind (Rt.setItem st.1 (bit - 1) true) (fun flags =>
      Outcome.bind (Rt.dictGet cfg (Rt.strOfInt bit)) (fun t1 =>
        Outcome.bind (F t1 (Rt.dictGetOpt message (deKey bit)) enc) (fun t2 =>
          .ok (flags, st.2 ++ t2))))
  else .ok (st.1, st.2)

/-- the MTI bytes as the last statements compute them -/
def mtiOf (message : Rt.SDict Rt.AnyVal) (enc : Text → Outcome Bytes) : Outcome Bytes :=
  if Rt.truthyOpt (Rt.dictGetOpt message [77, 84, 73]) then
    Outcome.bind (Rt.dictGet message [77, 84, 73]) (fun t => Outcome.bind (Rt.anyEncode enc t) (fun b => .ok b))
  else .ok []

theorem enc_unfold (F : FieldEnc) (message : Rt.SDict Rt.AnyVal) (cfg : Rt.SDict Rt.BitCfg) (enc : Text → Outcome Bytes)
    (hex : Bool) :
    Src._dict_to_iso8583_loop F message cfg enc hex =
      Outcome.bind (Rt.setItem (Rt.mulSeq [false] (128 : Int)) 0 true) (fun flags0 =>
        Outcome.bind (Rt.forO (encStep F message cfg enc) (Rt.range 2 129) (flags0, [])) (fun st =>
          Outcome.bind (Src.BitArray_fromlist [] st.1) (fun bm =>
            Outcome.bind (mtiOf message enc) (fun mti =>
              .ok ((mti ++ (if hex then Rt.hexlify bm else bm)) ++ st.2))))) := by
  unfold Src._dict_to_iso8583_loop
  cases hex <;> rfl

/-- "the present elements among `bs` are rendered one after the other onto `out`" -/
inductive Emits (F : FieldEnc) (message : Rt.SDict Rt.AnyVal) (cfg : Rt.SDict Rt.BitCfg) (enc : Text → Outcome Bytes) :
    List Int → Bytes → Bytes → Prop
  | nil (out) : Emits F message cfg enc [] out out
  | cons (b bs out f r out') :
      Rt.dictGet cfg (Rt.strOfInt b) = .ok f →
      F f (Rt.dictGetOpt message (deKey b)) enc = .ok r →
      Emits F message cfg enc bs (out ++ r) out' →
      Emits F message cfg enc (b :: bs) out out'

/-- the flags with the positions of the given element numbers switched on -/
def setAll (flags : List Bool) (ps : List Int) : List Bool := ps.foldl (fun fl b => fl.set (b - 1).toNat true) flags

theorem setAll_length (flags : List Bool) (ps : List Int) : (setAll flags ps).length = flags.length := by
  unfold setAll
  induction ps generalizing flags with
  | nil => rfl
  | cons p ps ih => simp only [List.foldl_cons]; rw [ih]; simp

theorem setItem_in (l : List Bool) (i : Int) (h0 : 0 ≤ i) (h1 : i.toNat < l.length) :
    Rt.setItem l i true = .ok (l.set i.toNat true) := by
  unfold Rt.setItem
  have : ¬ i < 0 := by omega
  simp only [this, if_false, h1, if_true]

/-- the translated loop over any list of element numbers: it returns exactly when the present ones are all
    configured and rendered, in the order of the list; the flags it leaves are the old ones with those positions on -/
theorem forO_emits (F : FieldEnc) (message : Rt.SDict Rt.AnyVal) (cfg : Rt.SDict Rt.BitCfg) (enc : Text → Outcome Bytes) :
    ∀ (bs : List Int) (flags : List Bool) (out : Bytes) (flags' : List Bool) (out' : Bytes),
      (∀ b ∈ bs, 1 ≤ b ∧ (b - 1).toNat < flags.length) →
      (Rt.forO (encStep F message cfg enc) bs (flags, out) = .ok (flags', out') ↔
        (Emits F message cfg enc (bs.filter (isPresent message)) out out' ∧
         flags' = setAll flags (bs.filter (isPresent message)))) := by
  intro bs
  induction bs with
  | nil =>
    intro flags out flags' out' _
    simp only [Rt.forO, List.filter_nil, setAll, List.foldl_nil]
    constructor
    · intro h; injection h with h; injection h with h1 h2; subst h1; subst h2; exact ⟨.nil _, rfl⟩
    · intro ⟨h, hf⟩; cases h; subst hf; rfl
  | cons b bs ih =>
    intro flags out flags' out' hin
    have hb := hin b (by simp)
    have hrest : ∀ (fl : List Bool), fl.length = flags.length → ∀ x ∈ bs, 1 ≤ x ∧ (x - 1).toNat < fl.length :=
      fun fl hl x hx => by rw [hl]; exact hin x (by simp [hx])
    simp only [Rt.forO, encStep]
    cases hp : isPresent message b with
    | false =>
      simp only [Bool.false_eq_true, if_false, bind_ok_eq, List.filter_cons, hp]
      exact ih flags out flags' out' (hrest flags rfl)
    | true =>
      simp only [if_true, List.filter_cons, hp]
      rw [setItem_in flags (b - 1) (by omega) hb.2, bind_ok_eq]
      have hset : setAll flags (b :: bs.filter (isPresent message)) =
          setAll (flags.set (b - 1).toNat true) (bs.filter (isPresent message)) := rfl
      rw [hset]
      cases hg : Rt.dictGet cfg (Rt.strOfInt b) with
      | ok f =>
        rw [bind_ok_eq]
        cases hF : F f (Rt.dictGetOpt message (deKey b)) enc with
        | ok r =>
          rw [bind_ok_eq, bind_ok_eq]
          rw [ih (flags.set (b - 1).toNat true) (out ++ r) flags' out' (hrest _ (by simp))]
          constructor
          · intro ⟨h, hf⟩; exact ⟨.cons b _ out f r out' hg hF h, hf⟩
          · intro ⟨h, hf⟩
            refine ⟨?_, hf⟩
            cases h with
            | cons _ _ _ f2 r2 _ hg2 hF2 ht =>
              rw [hg] at hg2; injection hg2 with hg2; subst hg2
              rw [hF] at hF2; injection hF2 with hF2; subst hF2
              exact ht
        | dataError =>
          simp only [Outcome.bind]
          constructor
          · intro h; cases h
          · intro ⟨h, _⟩
            cases h with
            | cons _ _ _ f2 r2 _ hg2 hF2 _ =>
              rw [hg] at hg2; injection hg2 with hg2; subst hg2
              rw [hF] at hF2; cases hF2
        | escape k =>
          simp only [Outcome.bind]
          constructor
          · intro h; cases h
          · intro ⟨h, _⟩
            cases h with
            | cons _ _ _ f2 r2 _ hg2 hF2 _ =>
              rw [hg] at hg2; injection hg2 with hg2; subst hg2
              rw [hF] at hF2; cases hF2
        | diverge =>
          simp only [Outcome.bind]
          constructor
          · intro h; cases h
          · intro ⟨h, _⟩
            cases h with
            | cons _ _ _ f2 r2 _ hg2 hF2 _ =>
              rw [hg] at hg2; injection hg2 with hg2; subst hg2
              rw [hF] at hF2; cases hF2
      | dataError =>
        simp only [Outcome.bind]
        constructor
        · intro h; cases h
        · intro ⟨h, _⟩
          cases h with
          | cons _ _ _ f2 r2 _ hg2 _ _ => rw [hg] at hg2; cases hg2
      | escape k =>
        simp only [Outcome.bind]
        constructor
        · intro h; cases h
        · intro ⟨h, _⟩
          cases h with
          | cons _ _ _ f2 r2 _ hg2 _ _ => rw [hg] at hg2; cases hg2
      | diverge =>
        simp only [Outcome.bind]
        constructor
        · intro h; cases h
        · intro ⟨h, _⟩
          cases h with
          | cons _ _ _ f2 r2 _ hg2 _ _ => rw [hg] at hg2; cases hg2

/-- the element numbers 2..128 present in the message, ascending -/
def presentBits (message : Rt.SDict Rt.AnyVal) : List Int := (Rt.range 2 129).filter (isPresent message)

theorem range_bounds1 : ∀ b ∈ Rt.range 2 129, (1 : Int) ≤ b ∧ (b - 1).toNat < 128 := by
  intro b hb
  unfold Rt.range at hb
  simp only [List.mem_map, List.mem_range] at hb
  obtain ⟨i, hi, rfl⟩ := hb
  have : ((129 : Int) - 2).toNat = 127 := by decide
  rw [this] at hi
  omega

theorem flags0_eq : Rt.setItem (Rt.mulSeq [false] (128 : Int)) 0 true = .ok (true :: List.replicate 127 false) := by
  rw [mulSeq_single]
  have h128 : (128 : Int).toNat = 127 + 1 := by decide
  rw [h128, List.replicate_succ]
  unfold Rt.setItem
  simp

/-- the flags the loop leaves: bit 1 on, bit n on exactly when element n is present -/
theorem setAll_get (ps : List Int) (hps : ∀ b ∈ ps, 1 ≤ b) :
    ∀ (flags : List Bool) (i : Nat) (hi : i < flags.length),
      (setAll flags ps)[i]'(by rw [setAll_length]; exact hi) = (flags[i] || ps.any (fun b => (b - 1).toNat == i)) := by
  induction ps with
  | nil => intro flags i hi; simp [setAll]
  | cons p ps ih =>
    intro flags i hi
    have h1 : setAll flags (p :: ps) = setAll (flags.set (p - 1).toNat true) ps := rfl
    have hi' : i < (flags.set (p - 1).toNat true).length := by simpa using hi
    have := ih (fun b hb => hps b (by simp [hb])) (flags.set (p - 1).toNat true) i hi'
    simp only [h1, this, List.any_cons, List.getElem_set]
    by_cases hpi : (p - 1).toNat = i
    · have hb : ((p - 1).toNat == i) = true := beq_iff_eq.mpr hpi
      rw [if_pos hpi, hb]; simp only [Bool.true_or, Bool.or_true]
    · have hb : ((p - 1).toNat == i) = false := beq_false_of_ne hpi
      rw [if_neg hpi, hb, Bool.false_or]

/-- C02 for the loop and assembly as translated: whenever the function returns, the bytes are the MTI, then the bitmap
    (16 bytes, or their 32 lowercase hex characters) of the flags "bit 1, and bit n iff element n is present", then the
    present elements 2..128 in ascending order, each as the element encoder rendered it -/
theorem C02_source_loop_layout (F : FieldEnc) (message : Rt.SDict Rt.AnyVal) (cfg : Rt.SDict Rt.BitCfg)
    (enc : Text → Outcome Bytes) (hex : Bool) (out : Bytes)
    (h : Src._dict_to_iso8583_loop F message cfg enc hex = .ok out) :
    ∃ mti body flags,
      mtiOf message enc = .ok mti ∧
      Emits F message cfg enc (presentBits message) [] body ∧
      flags.length = 128 ∧
      (∀ i (hi : i < flags.length), flags[i] = (i == 0 || (presentBits message).any (fun b => (b - 1).toNat == i))) ∧
      out = (mti ++ (if hex then Rt.hexlify (Iso.bytesOfBits flags) else Iso.bytesOfBits flags)) ++ body := by
  rw [enc_unfold, flags0_eq, bind_ok_eq] at h
  have hin : ∀ b ∈ Rt.range 2 129, 1 ≤ b ∧ (b - 1).toNat < (true :: List.replicate 127 false).length := by
    intro b hb; have := range_bounds1 b hb; simpa using this
  cases hl : Rt.forO (encStep F message cfg enc) (Rt.range 2 129) (true :: List.replicate 127 false, []) with
  | ok st =>
    obtain ⟨flags', body⟩ := st
    rw [hl, bind_ok_eq] at h
    obtain ⟨hem, hfl⟩ := (forO_emits F message cfg enc _ _ [] flags' body hin).mp hl
    have hlen : flags'.length = 128 := by rw [hfl, setAll_length]; simp
    rw [fromlist_eq [] flags' 16 (by rw [hlen]) (by decide), bind_ok_eq] at h
    cases hm : mtiOf message enc with
    | ok mti =>
      rw [hm, bind_ok_eq] at h
      injection h with h
      refine ⟨mti, body, flags', rfl, hem, hlen, ?_, h.symm⟩
      intro i hi
      have hps : ∀ b ∈ presentBits message, 1 ≤ b := by
        intro b hb
        exact (range_bounds1 b (List.mem_filter.mp hb).1).1
      have hi0 : i < (true :: List.replicate 127 false).length := by rw [hlen] at hi; simpa using hi
      have hg := setAll_get (presentBits message) hps (true :: List.replicate 127 false) i hi0
      have : flags'[i] = (setAll (true :: List.replicate 127 false) (presentBits message))[i]'(by
          rw [setAll_length]; exact hi0) := by
        congr 1
      rw [this, hg]
      cases i with
      | zero => simp
      | succ k =>
        have h0 : (true :: List.replicate 127 false)[k + 1]'hi0 = false := by
          rw [List.getElem_cons_succ, List.getElem_replicate]
        have h1 : ((k + 1) == 0) = false := rfl
        rw [h0, h1]
    | dataError => rw [hm] at h; cases h
    | escape k => rw [hm] at h; cases h
    | diverge => rw [hm] at h; cases h
  | dataError => rw [hl] at h; cases h
  | escape k => rw [hl] at h; cases h
  | diverge => rw [hl] at h; cases h

/-- what `Emits` says about the body: it is the concatenation of the renderings, in the order of the list -/
theorem emits_concat {F : FieldEnc} {message : Rt.SDict Rt.AnyVal} {cfg : Rt.SDict Rt.BitCfg} {enc : Text → Outcome Bytes} :
    ∀ {bs : List Int} {out out' : Bytes}, Emits F message cfg enc bs out out' →
      ∃ parts : List Bytes, parts.length = bs.length ∧ out' = out ++ parts.flatten := by
  intro bs
  induction bs with
  | nil => intro out out' h; cases h; exact ⟨[], rfl, by simp⟩
  | cons b bs ih =>
    intro out out' h
    cases h with
    | cons _ _ _ f r _ _ _ ht =>
      obtain ⟨parts, hl, hs⟩ := ih ht
      exact ⟨r :: parts, by simp [hl], by rw [hs]; simp⟩

theorem any_pred_contains (i : Nat) : ∀ (ps : List Int), (∀ b ∈ ps, 1 ≤ b) →
    ps.any (fun b => (b - 1).toNat == i) = (ps.map Int.toNat).contains (i + 1)
  | [], _ => rfl
  | p :: ps, hps => by
    have hp := hps p (by simp)
    simp only [List.any_cons, List.map_cons, List.contains_cons]
    rw [any_pred_contains i ps (fun b hb => hps b (by simp [hb]))]
    congr 1
    by_cases he : (p - 1).toNat = i
    · have : p.toNat = i + 1 := by omega
      simp [he, this]
    · have : ¬ (i + 1 = p.toNat) := by omega
      have hb : ((p - 1).toNat == i) = false := beq_false_of_ne he
      rw [hb]
      simp [this]

/-- the flags of `C02_source_loop_layout` are the model's `flagsOf` of the present element numbers, so the 16 bitmap
    bytes are the model's `bitmapOf` -/
theorem flags_eq_flagsOf (flags : List Bool) (ps : List Int) (hps : ∀ b ∈ ps, 1 ≤ b) (hl : flags.length = 128)
    (h : ∀ i (hi : i < flags.length), flags[i] = (i == 0 || ps.any (fun b => (b - 1).toNat == i))) :
    flags = Iso.flagsOf (ps.map Int.toNat) := by
  apply List.ext_getElem
  · rw [hl, Iso.flagsOf_length]
  · intro i h1 h2
    rw [h i h1]
    simp only [Iso.flagsOf, List.getElem_map, List.getElem_range]
    rw [any_pred_contains i ps hps]

/-- C02 for the loop and assembly as translated, in the model's terms: the bitmap bytes are `Iso.bitmapOf` of the present
    element numbers -/
theorem C02_source_loop_bitmapOf (F : FieldEnc) (message : Rt.SDict Rt.AnyVal) (cfg : Rt.SDict Rt.BitCfg)
    (enc : Text → Outcome Bytes) (out : Bytes)
    (h : Src._dict_to_iso8583_loop F message cfg enc false = .ok out) :
    ∃ mti body, mtiOf message enc = .ok mti ∧ Emits F message cfg enc (presentBits message) [] body ∧
      out = (mti ++ Iso.bitmapOf ((presentBits message).map Int.toNat)) ++ body := by
  obtain ⟨mti, body, flags, hm, he, hl, hf, ho⟩ := C02_source_loop_layout F message cfg enc false out h
  refine ⟨mti, body, hm, he, ?_⟩
  have hps : ∀ b ∈ presentBits message, 1 ≤ b := fun b hb => (range_bounds1 b (List.mem_filter.mp hb).1).1
  rw [ho, flags_eq_flagsOf flags (presentBits message) hps hl hf, Iso.bitmapOf_eq]
  rfl

end Cardutil.SrcTie
