import Cardutil.Py.Rt
/-
  The SOURCE TIE: `Gen/Src.lean` is the translation of the current Python text of /repo
  (harness/pytrans.py, re-run on every check); the theorems below say that each translated function
  IS the hand-written model the property theorems speak about — for all inputs, not for samples.
  When the source changes so that a theorem here no longer checks, the checks escalate their search
  (the behavioural correspondence remains the deciding tie).
-/
namespace Cardutil.SrcTie

open Cardutil Cardutil.Py

theorem bound_nonneg (len : Nat) (i : Int) (h : 0 ≤ i) : Rt.bound len i = min i.toNat len := by
  unfold Rt.bound
  rw [if_neg (by omega)]

theorem bound_neg (len : Nat) (i : Int) (h : i < 0) : Rt.bound len i = len - (-i).toNat := by
  unfold Rt.bound
  rw [if_pos h]
  omega

theorem slice_to {α} (l : List α) (i : Int) (h : 0 ≤ i) : Rt.slice l none (some i) = l.take i.toNat := by
  simp only [Rt.slice, bound_nonneg _ _ h, List.drop_zero]
  rw [List.take_eq_take_iff]
  omega

theorem slice_0_to {α} (l : List α) (i : Int) (h : 0 ≤ i) : Rt.slice l (some 0) (some i) = l.take i.toNat := by
  have := slice_to l i h
  simp only [Rt.slice, bound_nonneg _ _ (Int.le_refl 0)] at this ⊢
  simpa using this

theorem slice_from_neg {α} (l : List α) (i : Int) (h : i < 0) :
    Rt.slice l (some i) none = l.drop (l.length - (-i).toNat) := by
  simp only [Rt.slice, bound_neg _ _ h, List.take_length]

theorem slice_neg_neg {α} (l : List α) (i j : Int) (hi : i < 0) (hj : j < 0) :
    Rt.slice l (some i) (some j) = (l.take (l.length - (-j).toNat)).drop (l.length - (-i).toNat) := by
  simp only [Rt.slice, bound_neg _ _ hi, bound_neg _ _ hj]

theorem mulSeq_single {α} (x : α) (n : Int) : Rt.mulSeq [x] n = List.replicate n.toNat x := by
  unfold Rt.mulSeq
  induction n.toNat with
  | zero => rfl
  | succ k ih => simp [List.replicate_succ, ih]

theorem slice_between {α} (l : List α) (i j : Int) (hi : 0 ≤ i) (hj : 0 ≤ j) (hij : i ≤ j) (hl : j.toNat ≤ l.length) :
    Rt.slice l (some i) (some j) = (l.drop i.toNat).take (j.toNat - i.toNat) := by
  simp only [Rt.slice, bound_nonneg _ _ hi, bound_nonneg _ _ hj]
  rw [List.drop_take]
  congr 1
  · omega
  · congr 1; omega

/-- `l[i:j]` for `0 ≤ i ≤ j`, clamping included -/
theorem slice_mid {α} (l : List α) (i j : Int) (hi : 0 ≤ i) (hij : i ≤ j) :
    Rt.slice l (some i) (some j) = (l.drop i.toNat).take (j.toNat - i.toNat) := by
  simp only [Rt.slice, bound_nonneg _ _ hi, bound_nonneg _ _ (Int.le_trans hi hij)]
  rw [List.drop_take]
  by_cases h1 : i.toNat ≤ l.length
  · rw [Nat.min_eq_left h1]
    by_cases h2 : j.toNat ≤ l.length
    · rw [Nat.min_eq_left h2]
    · rw [Nat.min_eq_right (by omega)]
      rw [List.take_of_length_le (by simp), List.take_of_length_le (by simp; omega)]
  · have h3 : min i.toNat l.length = l.length := Nat.min_eq_right (by omega)
    rw [h3, List.drop_of_length_le (Nat.le_refl _), List.drop_of_length_le (by omega)]
    simp

theorem slice_nat {α} (l : List α) (a b : Nat) (h : a ≤ b) :
    Rt.slice l (some (a : Int)) (some (b : Int)) = (l.drop a).take (b - a) := by
  rw [slice_mid _ _ _ (by omega) (by omega)]
  simp

theorem bind_ok_eq {α β} (a : α) (f : α → Outcome β) : (Outcome.ok a).bind f = f a := rfl
theorem bind_escape_eq {α β} (k : ExcKind) (f : α → Outcome β) : (Outcome.escape k : Outcome α).bind f = .escape k := rfl
theorem bind_ok_right {α} (x : Outcome α) : Outcome.bind x (fun t => .ok t) = x := by cases x <;> rfl

end Cardutil.SrcTie
