import Cardutil.SrcTie.Loop
import Cardutil.SrcTie.EncLoop
import Cardutil.SrcTie.Block
import Cardutil.Lemmas.Bitmap
import Cardutil.SrcTie.Bits
/-
  The encoding loop and the decoding loop of `iso8583.py` TOGETHER, for the code as translated (C01): what the translated
  `_dict_to_iso8583` loop and assembly write, the translated `_iso8583_to_dict` loop reads back — for ANY element encoder
  and element decoder such that every present element's rendering is decoded back, whatever follows it in the message
  (prefix decoding), and any bitmap reader that inverts the bitmap writer.  The result is the accumulated dictionary of
  the elements' decodings, in ascending element order; the pointer ends exactly at the end of the data.
-/
namespace Cardutil.SrcTie

open Cardutil Cardutil.Py

/-- "the present elements among `bs` are each decoded back from their own rendering, and their entries accumulate" -/
inductive Recovers (FD : FieldDec) (FE : FieldEnc) (message : Rt.SDict Rt.AnyVal) (cfg : Rt.SDict Rt.BitCfg)
    (enc : Text → Outcome Bytes) (dec : Bytes → Outcome Text) :
    List Int → Rt.SDict Rt.PyVal → Rt.SDict Rt.PyVal → Prop
  | nil (acc) : Recovers FD FE message cfg enc dec [] acc acc
  | cons (b bs acc f r e acc') :
      Rt.dictGet cfg (Rt.strOfInt b) = .ok f →
      FE f (Rt.dictGetOpt message (deKey b)) enc = .ok r →
      (∀ rest : Bytes, FD b f (r ++ rest) dec = .ok (e, (r.length : Int))) →
      Recovers FD FE message cfg enc dec bs (Rt.dictUpdate acc e) acc' →
      Recovers FD FE message cfg enc dec (b :: bs) acc acc'

theorem slice_from_append (d0 rest : Bytes) :
    Rt.slice (d0 ++ rest) (some (d0.length : Int)) none = rest := by
  rw [slice_from _ _ (by omega)]
  have : ((d0.length : Int)).toNat = d0.length := by omega
  rw [this, List.drop_left]

/-- what is written is what is read: along the same list of elements, the renderings laid one after the other are
    tiled by the decoder, starting after any prefix `d0` and whatever suffix follows -/
theorem emits_recovers_tiles {FD : FieldDec} {FE : FieldEnc} {message : Rt.SDict Rt.AnyVal} {cfg : Rt.SDict Rt.BitCfg}
    {enc : Text → Outcome Bytes} {dec : Bytes → Outcome Text} :
    ∀ {bs : List Int} {acc acc' : Rt.SDict Rt.PyVal}, Recovers FD FE message cfg enc dec bs acc acc' →
    ∀ {out out' : Bytes}, Emits FE message cfg enc bs out out' →
    ∃ tail : Bytes, out' = out ++ tail ∧
      ∀ (d0 sfx : Bytes), Tiles FD cfg dec (d0 ++ (tail ++ sfx)) bs (d0.length : Int) acc
        ((d0.length : Int) + (tail.length : Int)) acc' := by
  intro bs acc acc' hr
  induction hr with
  | nil acc =>
    intro out out' he
    cases he
    exact ⟨[], by simp, fun d0 sfx => by simpa using Tiles.nil (d0.length : Int) acc⟩
  | cons b bs acc f r e acc' hf hE hD _ ih =>
    intro out out' he
    cases he with
    | cons _ _ _ f' r' _ hf' hE' ht =>
      have e1 : f' = f := by rw [hf] at hf'; injection hf' with h; exact h.symm
      subst e1
      have e2 : r' = r := by rw [hE] at hE'; injection hE' with h; exact h.symm
      subst e2
      obtain ⟨tail, ho, htl⟩ := ih ht
      refine ⟨r' ++ tail, by rw [ho, List.append_assoc], ?_⟩
      intro d0 sfx
      have hdec : FD b f' (Rt.slice (d0 ++ (r' ++ tail ++ sfx)) (some (d0.length : Int)) none) dec =
          .ok (e, (r'.length : Int)) := by
        rw [slice_from_append, List.append_assoc]
        exact hD (tail ++ sfx)
      have ht2 := htl (d0 ++ r') sfx
      have hdata : d0 ++ r' ++ (tail ++ sfx) = d0 ++ (r' ++ tail ++ sfx) := by simp [List.append_assoc]
      rw [hdata] at ht2
      have hp : ((d0 ++ r').length : Int) = (d0.length : Int) + (r'.length : Int) := by
        rw [List.length_append]; omega
      rw [hp] at ht2
      have hp2 : (d0.length : Int) + (r'.length : Int) + (tail.length : Int) =
          (d0.length : Int) + ((r' ++ tail).length : Int) := by
        rw [List.length_append]; omega
      rw [hp2] at ht2
      exact Tiles.cons b bs (d0.length : Int) acc f' e (r'.length : Int) _ acc' hf hdec ht2

/-- the flags the encoder wrote select, on the decoder's side, exactly the elements that were present -/
theorem flagged_written (message : Rt.SDict Rt.AnyVal) (flags : List Bool) (x : Bool) (hl : flags.length = 128)
    (hf : ∀ i (hi : i < flags.length), flags[i] = (i == 0 || (presentBits message).any (fun b => (b - 1).toNat == i))) :
    flagged (x :: flags) (Rt.range 2 129) = presentBits message := by
  unfold flagged presentBits
  apply List.filter_congr
  intro b hb
  obtain ⟨h1, h2⟩ := range_bounds1 b hb
  have hb2 : 2 ≤ b := by
    unfold Rt.range at hb
    obtain ⟨i, _, rfl⟩ := List.mem_map.mp hb
    omega
  have hidx : b.toNat = (b - 1).toNat + 1 := by omega
  rw [hidx, List.getD_cons_succ]
  have hi : (b - 1).toNat < flags.length := by rw [hl]; exact h2
  rw [List.getD_eq_getElem?_getD, List.getElem?_eq_getElem hi, Option.getD_some, hf _ hi]
  have h0 : ((b - 1).toNat == 0) = false := by
    rw [beq_eq_false_iff_ne]; omega
  rw [h0, Bool.false_or]
  -- among the present elements, one equals b exactly when b is present
  by_cases hp : isPresent message b = true
  · rw [hp]
    apply List.any_eq_true.mpr
    exact ⟨b, List.mem_filter.mpr ⟨hb, hp⟩, by simp⟩
  · have hp' : isPresent message b = false := by simpa using hp
    rw [hp']
    apply List.any_eq_false.mpr
    intro c hc
    have hcm := List.mem_filter.mp hc
    have hc1 := (range_bounds1 c hcm.1).1
    intro he
    have : c = b := by
      have := beq_iff_eq.mp he
      omega
    subst this
    rw [hcm.2] at hp'
    cases hp'

/-- C01 for the two loops as translated: if every present element's rendering decodes back to `e_b` whatever follows it
    (`Recovers`), and the bitmap reader inverts the bitmap writer, then the message the translated encoder assembles —
    MTI, binary bitmap, element data — is read back by the translated decoding loop: it returns, and its result is the
    dictionary accumulated from the elements' decodings in ascending order -/
theorem C01_source_loop_roundtrip (FE : FieldEnc) (FD : FieldDec) (G : Bytes → List Bool)
    (message : Rt.SDict Rt.AnyVal) (cfg : Rt.SDict Rt.BitCfg) (enc : Text → Outcome Bytes) (dec : Bytes → Outcome Text)
    (out : Bytes) (rv d : Rt.SDict Rt.PyVal)
    (henc : Src._dict_to_iso8583_loop FE message cfg enc false = .ok out)
    (hrec : Recovers FD FE message cfg enc dec (presentBits message) rv d)
    (hG : ∀ flags : List Bool, flags.length = 128 → G (Iso.bytesOfBits flags) = false :: flags) :
    ∃ mti body flags, mtiOf message enc = .ok mti ∧ flags.length = 128 ∧
      out = (mti ++ Iso.bytesOfBits flags) ++ body ∧
      ∀ msg : Bytes, Src._iso8583_to_dict_loop G FD msg body (Iso.bytesOfBits flags) cfg dec rv = .ok d := by
  obtain ⟨mti, body, flags, hm, hem, hl, hf, ho⟩ := C02_source_loop_layout FE message cfg enc false out henc
  refine ⟨mti, body, flags, hm, hl, by simpa using ho, ?_⟩
  intro msg
  have hGl : (G (Iso.bytesOfBits flags)).length = 129 := by rw [hG flags hl]; simp [hl]
  rw [C08_source_loop_tiles G FD msg body (Iso.bytesOfBits flags) cfg dec rv d hGl, hG flags hl,
    flagged_written message flags false hl hf]
  obtain ⟨tail, ht, htl⟩ := emits_recovers_tiles hrec hem
  have hbody : body = tail := by simpa using ht
  have := htl [] []
  simp only [List.nil_append, List.append_nil, List.length_nil] at this
  rw [hbody]
  simpa [Rt.len] using this

/-- the header statements of the decoder on a message assembled as MTI (4 bytes), binary bitmap (16 bytes), data -/
theorem header_assembled (dec : Bytes → Outcome Text) (mti bm body : Bytes) (t : Text) (n : Int)
    (h4 : mti.length = 4) (h16 : bm.length = 16) (hd : dec mti = .ok t)
    (hn : Rt.pyvalInt Gen.intClasses (Rt.PyVal.str t) = .ok n) :
    header dec false ((mti ++ bm) ++ body) = .ok (t, bm, body) := by
  unfold header Rt.unpack3 Rt.len
  simp only [Bool.false_eq_true, if_false]
  have hlen : (((mti ++ bm) ++ body).length : Int) - 20 = (body.length : Int) := by
    simp only [List.length_append, h4, h16]; omega
  have hnot : ¬ ((((mti ++ bm) ++ body).length : Int) - 20 < 0 ∨
      (((mti ++ bm) ++ body).length : Int) ≠ ((4 : Nat) : Int) + ((16 : Nat) : Int) + ((((mti ++ bm) ++ body).length : Int) - 20)) := by
    rw [hlen]
    simp only [List.length_append, h4, h16]
    omega
  rw [if_neg hnot]
  have t1 : List.take 4 ((mti ++ bm) ++ body) = mti := by
    rw [List.append_assoc, List.take_append_of_le_length (by omega), List.take_of_length_le (by omega)]
  have t2 : List.take 16 (List.drop 4 ((mti ++ bm) ++ body)) = bm := by
    rw [List.append_assoc, ← h4, List.drop_left, List.take_append_of_le_length (by omega), List.take_of_length_le (by omega)]
  have t3 : List.drop (4 + 16) ((mti ++ bm) ++ body) = body := by
    have : (mti ++ bm).length = 4 + 16 := by rw [List.length_append, h4, h16]
    rw [← this, List.drop_left]
  simp only [catch_ok, bind_ok_eq, t1, t2, t3, hd, hn]

/-- C01 for the WHOLE encoder loop / assembly and the WHOLE decoder as translated (binary bitmap): a message whose MTI
    is rendered in four bytes that decode back to a number, and whose present elements are each decoded back from their
    own rendering (`Recovers`, started from the MTI entry), comes back from `_iso8583_to_dict` as the accumulated
    dictionary — for ANY element encoder / decoder pair with that property and any bitmap reader inverting the writer -/
theorem C01_source_whole_roundtrip (FE : FieldEnc) (FD : FieldDec) (G : Bytes → List Bool)
    (message : Rt.SDict Rt.AnyVal) (cfg : Rt.SDict Rt.BitCfg) (enc : Text → Outcome Bytes) (dec : Bytes → Outcome Text)
    (out mti : Bytes) (t : Text) (n : Int) (d : Rt.SDict Rt.PyVal)
    (henc : Src._dict_to_iso8583_loop FE message cfg enc false = .ok out)
    (hmti : mtiOf message enc = .ok mti) (h4 : mti.length = 4) (hd : dec mti = .ok t)
    (hn : Rt.pyvalInt Gen.intClasses (Rt.PyVal.str t) = .ok n)
    (hrec : Recovers FD FE message cfg enc dec (presentBits message) [([77, 84, 73], Rt.PyVal.str t)] d)
    (hG : ∀ flags : List Bool, flags.length = 128 → G (Iso.bytesOfBits flags) = false :: flags) :
    Src._iso8583_to_dict G FD out cfg dec false = .ok d := by
  obtain ⟨mti', body, flags, hm', hl, ho, hloop⟩ :=
    C01_source_loop_roundtrip FE FD G message cfg enc dec out _ d henc hrec hG
  have e0 : (Outcome.ok mti' : Outcome Bytes) = Outcome.ok mti := hm'.symm.trans hmti
  have e : mti' = mti := Outcome.ok.inj e0
  subst e
  have h16 : (Iso.bytesOfBits flags).length = 16 := Iso.bytesOfBits_length 16 flags (by rw [hl])
  rw [whole_eq, ho, header_assembled dec mti' (Iso.bytesOfBits flags) body t n h4 h16 hd hn, bind_ok_eq]
  exact hloop _

/-- `_get_bitmap_list` with the TRANSLATED `BitArray.tolist` behind it: the bitmap object first (a placeholder here),
    then the bits -/
def bitmapReader (bm : Bytes) : List Bool :=
  false :: (match Src.BitArray_tolist bm with | .ok bits => bits | _ => [])

/-- the translated bitmap reader inverts the bitmap writer -/
theorem bitmapReader_inverts (flags : List Bool) (hl : flags.length = 128) :
    bitmapReader (Iso.bytesOfBits flags) = false :: flags := by
  unfold bitmapReader
  have h8 : flags.length = 8 * 16 := by rw [hl]
  have hlen := Iso.bytesOfBits_length 16 flags h8
  have hne : Iso.bytesOfBits flags ≠ [] := by
    intro e; rw [e] at hlen; simp at hlen
  rw [tolist_eq _ (Iso.bytesOfBits_lt 16 flags h8) hne, Iso.bitsOfBytes_bytesOfBits 16 flags h8]

/-- C01, whole encoder and whole decoder as translated, with the translated `BitArray` reading the bitmap: no hypothesis
    about the bitmap is left — only the element encoder / decoder pair is a parameter -/
theorem C01_source_whole_roundtrip_bits (FE : FieldEnc) (FD : FieldDec)
    (message : Rt.SDict Rt.AnyVal) (cfg : Rt.SDict Rt.BitCfg) (enc : Text → Outcome Bytes) (dec : Bytes → Outcome Text)
    (out mti : Bytes) (t : Text) (n : Int) (d : Rt.SDict Rt.PyVal)
    (henc : Src._dict_to_iso8583_loop FE message cfg enc false = .ok out)
    (hmti : mtiOf message enc = .ok mti) (h4 : mti.length = 4) (hd : dec mti = .ok t)
    (hn : Rt.pyvalInt Gen.intClasses (Rt.PyVal.str t) = .ok n)
    (hrec : Recovers FD FE message cfg enc dec (presentBits message) [([77, 84, 73], Rt.PyVal.str t)] d) :
    Src._iso8583_to_dict bitmapReader FD out cfg dec false = .ok d :=
  C01_source_whole_roundtrip FE FD bitmapReader message cfg enc dec out mti t n d henc hmti h4 hd hn hrec
    bitmapReader_inverts

/-- the hypotheses can be met: a message with no data element at all round-trips (the MTI alone) -/
example (FE : FieldEnc) (FD : FieldDec) (cfg : Rt.SDict Rt.BitCfg) (enc : Text → Outcome Bytes) (dec : Bytes → Outcome Text)
    (acc : Rt.SDict Rt.PyVal) : Recovers FD FE [] cfg enc dec [] acc acc := Recovers.nil acc

end Cardutil.SrcTie
