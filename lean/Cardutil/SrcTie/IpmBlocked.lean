import Cardutil.SrcTie.Blocked
import Cardutil.SrcTie.IpmRoundTrip
/-
  The IPM file round trip over the BLOCKED (1014) format, for the code as translated (C06): `IpmWriter.write` over the
  translated blocked `VbsWriter.write`, the translated blocked `close`, and `IpmReader.__next__` over the translated
  blocked `VbsReader.__next__` — with the message encoder and decoder as EXTERNAL functions.
-/
namespace Cardutil.SrcTie

open Cardutil Cardutil.Py Cardutil.Vbs

theorem ipm_writeB_eq (fuel : Nat) (D : Dumps) (fin : Bool) (rem : Int) (d : Bytes) (pos : Int) (m : Msg) :
    Src.IpmWriterB_write fuel D fin rem d pos m = (D m).bind (fun r => Src.VbsWriterB_write fuel fin rem d pos r) := by
  unfold Src.IpmWriterB_write
  refine congrArg (Outcome.bind (D m)) (funext fun r => ?_)
  exact bind_ok_right _

/-- `for m in ms: writer.write(m)` with the translated blocked message writer -/
def srcIpmWriteAllB (fuel : Nat) (D : Dumps) :
    Bool × (Int × (Bytes × Int)) → List Msg → Outcome (Bool × (Int × (Bytes × Int)))
  | st, [] => .ok st
  | st, m :: ms => (Src.IpmWriterB_write fuel D st.1 st.2.1 st.2.2.1 st.2.2.2 m).bind (fun st' => srcIpmWriteAllB fuel D st' ms)

theorem ipm_write_allB_records (fuel : Nat) (D : Dumps) (ms : List Msg) (recs : List Bytes)
    (hd : Paired (fun m r => D m = .ok r) ms recs) : ∀ (st : Bool × (Int × (Bytes × Int))),
    srcIpmWriteAllB fuel D st ms = srcWriteAllB fuel st recs := by
  induction hd with
  | nil => intro st; rfl
  | cons hmr _ ih =>
    intro st
    rw [srcIpmWriteAllB, srcWriteAllB, ipm_writeB_eq, hmr, bind_ok_eq]
    cases Src.VbsWriterB_write fuel st.1 st.2.1 st.2.2.1 st.2.2.2 _ with
    | ok st' => simp only [bind_ok_eq]; exact ih st'
    | dataError => rfl
    | escape k => rfl
    | diverge => rfl

/-- the translated blocked message reader in terms of the model's framing step over the unblocker -/
theorem ipm_nextB_eq (ffuel : Nat) (L : Loads) (recno : Nat) (last : Option Bytes) (buf rest : Bytes)
    (hf : rest.length < ffuel) :
    Src.IpmReaderB_next ffuel L (recno : Int) (last.getD []) buf rest =
      (match next (unblockSrc 1012) Gen.maxVbsRecordLength ⟨⟨rest, buf⟩, recno, last⟩ with
       | .record r st =>
         (match L r with
          | .ok d => .ok (.ret (d, ((st.recno : Int), (st.last.getD [], (st.src.buf, st.src.rest)))))
          | .dataError => .ok (.libError (recno : Int) (st.last.getD []))
          | .escape k => .escape k
          | .diverge => .diverge)
       | .done .eof => .ok .stop
       | .done (.dataError n ctx) => .ok (.libError (n : Int) ctx)
       | .done _ => .ok .stop) := by
  unfold Src.IpmReaderB_next
  rw [readerB_next_eq ffuel recno last buf rest hf, bind_ok_eq]
  cases hn : next (unblockSrc 1012) Gen.maxVbsRecordLength ⟨⟨rest, buf⟩, recno, last⟩ with
  | record r st =>
    simp only [stepSignalB]
    cases L r <;> rfl
  | done e =>
    cases e <;> rfl

/-- `list(reader)` with the translated blocked `IpmReader.__next__` -/
def srcIpmReadAllB (ffuel : Nat) (L : Loads) : Nat → Int × (Bytes × (Bytes × Bytes)) → List Msg × End
  | 0, _ => ([], .fuel)
  | fuel + 1, st =>
    match Src.IpmReaderB_next ffuel L st.1 st.2.1 st.2.2.1 st.2.2.2 with
    | .ok (.ret r) => let x := srcIpmReadAllB ffuel L fuel r.2; (r.1 :: x.1, x.2)
    | .ok .stop => ([], .eof)
    | .ok (.libError n ctx) => ([], .dataError n.toNat ctx)
    | .dataError => ([], .escape .other)
    | .escape k => ([], .escape k)
    | .diverge => ([], .diverge)

theorem ipm_read_allB_records (ffuel : Nat) (L : Loads) (ms : List Msg) (recs : List Bytes)
    (hl : Paired (fun m r => L r = .ok m) ms recs) : ∀ (fuel recno : Nat) (last : Option Bytes) (buf rest : Bytes),
    rest.length < ffuel →
    readAll (unblockSrc 1012) Gen.maxVbsRecordLength fuel ⟨⟨rest, buf⟩, recno, last⟩ = (recs, .eof) →
    srcIpmReadAllB ffuel L fuel ((recno : Int), (last.getD [], (buf, rest))) = (ms, .eof) := by
  induction hl with
  | nil =>
    intro fuel recno last buf rest hf h
    cases fuel with
    | zero => simp [readAll] at h
    | succ fuel =>
      rw [srcIpmReadAllB]
      simp only [ipm_nextB_eq ffuel L recno last buf rest hf]
      rw [readAll] at h
      cases hn : next (unblockSrc 1012) Gen.maxVbsRecordLength ⟨⟨rest, buf⟩, recno, last⟩ with
      | record r st => rw [hn] at h; simp at h
      | done e =>
        rw [hn] at h
        simp only [Prod.mk.injEq, true_and] at h
        subst h
        rfl
  | @cons m r ms recs hmr _ ih =>
    intro fuel recno last buf rest hf h
    cases fuel with
    | zero => simp [readAll] at h
    | succ fuel =>
      rw [srcIpmReadAllB]
      simp only [ipm_nextB_eq ffuel L recno last buf rest hf]
      rw [readAll] at h
      cases hn : next (unblockSrc 1012) Gen.maxVbsRecordLength ⟨⟨rest, buf⟩, recno, last⟩ with
      | record r' st =>
        rw [hn] at h
        simp only [Prod.mk.injEq, List.cons.injEq] at h
        obtain ⟨⟨hr, hrest⟩, hend⟩ := h
        subst hr
        simp only [hmr]
        have hle := next_rest_le _ _ _ _ _ _ hn
        have := ih fuel st.recno st.last st.src.buf st.src.rest (by simp only [] at hle; omega) (Prod.ext hrest hend)
        rw [this]
      | done e => rw [hn] at h; simp at h

/-- C06 for the code as translated over the BLOCKED format, writer AND reader, for ANY encoder and decoder that are
    inverse on the messages written (encodings non-empty and within the configured maximum): the messages written are
    the messages read back, in order, then end of data -/
theorem C06_source_roundtrip_blocked (D : Dumps) (L : Loads) (ms : List Msg) (hmax : Gen.maxVbsRecordLength < 4294967296)
    (h : ∀ m ∈ ms, ∃ r, D m = .ok r ∧ L r = .ok m ∧ 0 < r.length ∧ r.length ≤ Gen.maxVbsRecordLength)
    (fuel : Nat) (hfuel : Gen.maxVbsRecordLength < fuel) (hf4 : 4 < fuel) :
    ∃ st1 st2, srcIpmWriteAllB fuel D (false, ((1012 : Int), ([], (0 : Int)))) ms = .ok st1 ∧
      Src.VbsWriterB_close fuel st1.1 st1.2.1 st1.2.2.1 st1.2.2.2 = .ok st2 ∧
      srcIpmReadAllB (st2.2.2.1.length + 1) L (st2.2.2.1.length + 1) ((1 : Int), ([], ([], st2.2.2.1))) = (ms, .eof) := by
  have hrecs : ∃ recs : List Bytes, Paired (fun m r => D m = .ok r) ms recs ∧
      Paired (fun m r => L r = .ok m) ms recs ∧
      ∀ r ∈ recs, 0 < r.length ∧ r.length ≤ Gen.maxVbsRecordLength := by
    clear hmax hfuel hf4
    induction ms with
    | nil => exact ⟨[], .nil, .nil, by simp⟩
    | cons m ms ih =>
      obtain ⟨r, hd, hl, hlen⟩ := h m (by simp)
      obtain ⟨recs, h1, h2, h3⟩ := ih (fun x hx => h x (by simp [hx]))
      refine ⟨r :: recs, .cons hd h1, .cons hl h2, ?_⟩
      intro x hx
      rcases List.mem_cons.mp hx with rfl | hx
      · exact hlen
      · exact h3 x hx
  obtain ⟨recs, hD, hL, hlen⟩ := hrecs
  obtain ⟨st1, st2, hw, hc, hr⟩ := C03_source_roundtrip_blocked recs hmax hlen fuel hf4
    (fun r hr => by have := (hlen r hr).2; omega)
  refine ⟨st1, st2, ?_, hc, ?_⟩
  · rw [ipm_write_allB_records fuel D ms recs hD]; exact hw
  · have h1 := src_read_allB_eq (st2.2.2.1.length + 1) (st2.2.2.1.length + 1) 1 none [] st2.2.2.1 (by omega)
    simp only [Option.getD_none] at h1
    rw [show ((1 : Nat) : Int) = (1 : Int) from rfl] at h1
    rw [h1] at hr
    have := ipm_read_allB_records (st2.2.2.1.length + 1) L ms recs hL (st2.2.2.1.length + 1) 1 none [] st2.2.2.1
      (by omega) hr
    simpa using this

/-- C07 for the BLOCKED readers as translated, over ANY bytes (fuel above the file's length): they always return — a
    record / a message, end of data, or the library's error -/
theorem C07_source_blocked_readers_total (L : Loads) (hL : ∀ r, (∃ d, L r = .ok d) ∨ L r = .dataError)
    (ffuel recno : Nat) (last : Option Bytes) (buf rest : Bytes) (hf : rest.length < ffuel) :
    (∃ sig, Src.VbsReaderB_next ffuel (recno : Int) (last.getD []) buf rest = .ok sig) ∧
    (∃ sig, Src.IpmReaderB_next ffuel L (recno : Int) (last.getD []) buf rest = .ok sig) := by
  refine ⟨⟨_, readerB_next_eq ffuel recno last buf rest hf⟩, ?_⟩
  rw [ipm_nextB_eq ffuel L recno last buf rest hf]
  cases hn : next (unblockSrc 1012) Gen.maxVbsRecordLength ⟨⟨rest, buf⟩, recno, last⟩ with
  | record r st =>
    rcases hL r with ⟨d, hd⟩ | hd
    · simp only [hd]; exact ⟨_, rfl⟩
    · simp only [hd]; exact ⟨_, rfl⟩
  | done e => cases e <;> exact ⟨_, rfl⟩

end Cardutil.SrcTie
