import Cardutil.SrcTie.Base
import Cardutil.Gen.Src
import Cardutil.Model.Info
import Cardutil.Props.C17
import Cardutil.SrcTie.Bits
/-
  Source tie for `mciipm.block_1014_check` and `mciipm.encoding_check` (C17).
-/
namespace Cardutil.SrcTie

open Cardutil Cardutil.Py

/-- `block_1014_check` -/
theorem block_check_eq (s : Bytes) : Src.block_1014_check s = Info.block1014Check s := by
  unfold Src.block_1014_check Info.block1014Check Info.blockCheck
  by_cases h : s.length < 1014
  · have h1 : decide (Rt.len s < (1014 : Int)) = true := by unfold Rt.len; simp; omega
    simp [h1, h]
  · have h1 : decide (Rt.len s < (1014 : Int)) = false := by unfold Rt.len; simp; omega
    have hfirst : Rt.slice (Rt.slice s (some 0) (some (1014 : Int))) (some (-(2 : Int))) none = (s.drop 1012).take 2 := by
      rw [slice_0_to _ _ (by decide), slice_from_neg _ _ (by decide)]
      have : (s.take (1014 : Int).toNat).length = 1014 := by simp; omega
      rw [this, List.drop_take]
      rfl
    have hpp : Rt.mulSeq [64] (2 : Int) = Block.PP := by rw [mulSeq_single]; rfl
    have hlen : (Rt.len s == (1014 : Int)) = decide (s.length = 1012 + 2) := by
      unfold Rt.len
      by_cases he : s.length = 1014
      · simp [he]
      · have : ¬ ((s.length : Int) = 1014) := by omega
        simp [he, this]
    simp only [h1, h, hfirst, hpp, hlen, if_false, Bool.false_eq_true]
    by_cases hp : ((s.drop 1012).take 2 == Block.PP) = true
    · simp only [hp, if_true]
      by_cases he : s.length = 1012 + 2
      · simp [he]
      · simp only [he, decide_false, Bool.false_eq_true, if_false]
        by_cases h2 : 2 * (1012 + 2) ≤ s.length
        · have hd : decide (Rt.len s ≥ (2028 : Int)) = true := by unfold Rt.len; simp; omega
          have hs : Rt.slice s (some (2026 : Int)) (some (2028 : Int)) = (s.drop (1012 + 2 + 1012)).take 2 := by
            rw [slice_between _ _ _ (by decide) (by decide) (by decide) (by simp; omega)]
            rfl
          simp [hd, hs, h2]
        · have hd : decide (Rt.len s ≥ (2028 : Int)) = false := by unfold Rt.len; simp; omega
          simp [hd, h2]
    · have hp' : ((s.drop 1012).take 2 == Block.PP) = false := by simpa using hp
      simp [hp']

/-- `encoding_check`: the same decision, with the result strings 'latin1' / 'cp037' / 'unknown' -/
def encName : Info.Enc → Text
  | .latin1 => Rt.lit "latin1"
  | .cp037 => Rt.lit "cp037"
  | .unknown => Rt.lit "unknown"

theorem encoding_check_eq (mti : Bytes) :
    Src.encoding_check mti = encName (Info.encodingCheck Gen.latin1Numeric Gen.cp037Numeric mti) := by
  unfold Src.encoding_check Info.encodingCheck Info.allNumeric Rt.allIn
  by_cases h1 : (!mti.isEmpty && mti.all Gen.latin1Numeric.contains) = true
  · simp only [h1, if_true]; rfl
  · have h1' : (!mti.isEmpty && mti.all Gen.latin1Numeric.contains) = false := by simpa using h1
    simp only [h1', Bool.false_eq_true, if_false]
    by_cases h2 : (!mti.isEmpty && mti.all Gen.cp037Numeric.contains) = true
    · simp only [h2, if_true]; rfl
    · have h2' : (!mti.isEmpty && mti.all Gen.cp037Numeric.contains) = false := by simpa using h2
      simp only [h2', Bool.false_eq_true, if_false]; rfl

/-! ### the property, carried over to the translated source -/

/-- C17(a) for the code as translated: every blocked file the library's writer produces is
    recognised as blocked by `block_1014_check` -/
theorem C17_source_blocked (recs : List Bytes) :
    Src.block_1014_check ((Writer.listToBytes 1012 true recs).take 2500) = true := by
  rw [block_check_eq]
  exact Props.C17.C17_blocked_writer_output recs

/-! ### `bitmap_check`: a loop with an early return over the bits of a `BitArray` -/

/-- first position (numbered from `k`) whose flag is set and which has no configuration -/
def scan (cfg : List Nat) : Nat → List Bool → Option Nat
  | _, [] => none
  | k, v :: vs => if v && !cfg.contains k then some k else scan cfg (k + 1) vs

/-- the model's `find?` over the flagged element numbers is this scan -/
theorem find_present (cfg : List Nat) : ∀ (vs : List Bool) (k : Nat),
    ((List.range vs.length).filterMap (fun i => if vs.getD i false then some (i + k) else none)).find?
      (fun b => !cfg.contains b) = scan cfg k vs := by
  intro vs
  induction vs with
  | nil => intro k; rfl
  | cons v vs ih =>
    intro k
    rw [List.length_cons, List.range_succ_eq_map, List.filterMap_cons, List.filterMap_map]
    have hstep : (fun i => if (v :: vs).getD (i + 1) false then some (i + 1 + k) else none) =
        (fun i => if vs.getD i false then some (i + (k + 1)) else none) := by
      funext i
      simp only [List.getD_cons_succ]
      have : i + 1 + k = i + (k + 1) := by omega
      rw [this]
    have hcomp : ((fun i => if (v :: vs).getD i false then some (i + k) else none) ∘ Nat.succ) =
        (fun i => if vs.getD i false then some (i + (k + 1)) else none) := by
      rw [← hstep]; rfl
    rw [hcomp]
    simp only [List.getD_cons_zero, Nat.zero_add]
    cases v with
    | false => simp only [Bool.false_eq_true, if_false, scan, Bool.false_and]; exact ih (k + 1)
    | true =>
      simp only [if_true, List.find?_cons, scan, Bool.true_and]
      cases hc : cfg.contains k with
      | true => simp only [Bool.not_true, Bool.false_eq_true, if_false]; exact ih (k + 1)
      | false => simp

theorem bitmapCheck_scan (cfg : List Nat) (bm : Bytes) (h : (Iso.bitsOfBytes bm).length = 128) :
    Info.bitmapCheck cfg bm = scan cfg 2 ((Iso.bitsOfBytes bm).drop 1) := by
  unfold Info.bitmapCheck Iso.presentBits
  dsimp only
  have hl : ((Iso.bitsOfBytes bm).drop 1).length = 127 := by simp [h]
  have := find_present cfg ((Iso.bitsOfBytes bm).drop 1) 2
  rw [hl] at this
  rw [← this]
  congr 2
  funext i
  simp [List.getD_eq_getElem?_getD, Nat.add_comm]

/-- the reason text for an unconfigured element -/
def reasonBitmap (b : Nat) : Text :=
  [66, 105, 116, 109, 97, 112, 32, 117, 115, 101, 115, 32, 68, 69] ++ Rt.strOfInt ((b : Nat) : Int) ++
    [32, 119, 104, 105, 99, 104, 32, 105, 115, 32, 110, 111, 116, 32, 117, 115, 101, 100, 32, 105, 110, 32, 73, 80, 77]

/-- one pass of the translated loop body (for a state that has not returned yet) -/
def bitStep (st : Option (Bool × Text)) (p : Int × Bool) : Outcome (Option (Bool × Text)) :=
  match st with
  | some r => .ok (some r)
  | none =>
    if (p.1 == (0 : Int)) then .ok none
    else if p.2 then
      (if (!(Gen.configuredBits.any (fun e => decide (((e : Nat) : Int) = (p.1 + (1 : Int)))))) then
        .ok (some (false, ([66, 105, 116, 109, 97, 112, 32, 117, 115, 101, 115, 32, 68, 69] ++ (Rt.strOfInt (p.1 + (1 : Int))) ++
          [32, 119, 104, 105, 99, 104, 32, 105, 115, 32, 110, 111, 116, 32, 117, 115, 101, 100, 32, 105, 110, 32, 73, 80, 77])))
      else .ok none)
    else .ok none

theorem forO_returned (l : List (Int × Bool)) (r : Bool × Text) : Rt.forO bitStep l (some r) = .ok (some r) := by
  induction l with
  | nil => rfl
  | cons p l ih => simp only [Rt.forO, bitStep, Outcome.bind, ih]

theorem any_contains (cfg : List Nat) (j : Nat) :
    cfg.any (fun e => decide (((e : Nat) : Int) = ((j : Nat) : Int) + (1 : Int))) = cfg.contains (j + 1) := by
  induction cfg with
  | nil => rfl
  | cons c cs ih =>
    simp only [List.any_cons, List.contains_cons, ih]
    congr 1
    by_cases h : c = j + 1
    · subst h; simp
    · have : ¬ ((c : Int) = (j : Int) + 1) := by omega
      simp [h, this]
      exact fun e => h e.symm

theorem loop_scan : ∀ (l : List Bool) (j : Nat), 1 ≤ j →
    Rt.forO bitStep (Rt.enumerateGo ((j : Nat) : Int) l) none =
      .ok ((scan Gen.configuredBits (j + 1) l).map (fun b => (false, reasonBitmap b))) := by
  intro l
  induction l with
  | nil => intro j _; rfl
  | cons v vs ih =>
    intro j hj
    have hne : ¬ (((j : Nat) : Int) = 0) := by omega
    have hstep : Rt.enumerateGo ((j : Nat) : Int) (v :: vs) = ((j : Int), v) :: Rt.enumerateGo (((j + 1 : Nat)) : Int) vs := by
      simp only [Rt.enumerateGo, Int.natCast_add, Int.natCast_one]
    rw [hstep]
    simp only [Rt.forO, bitStep]
    have hz : (((j : Nat) : Int) == (0 : Int)) = false := by simpa using hne
    rw [hz]
    simp only [Bool.false_eq_true, if_false, any_contains]
    cases v with
    | false =>
      simp only [Bool.false_eq_true, if_false, Outcome.bind, scan, Bool.false_and]
      exact ih (j + 1) (by omega)
    | true =>
      simp only [if_true, scan, Bool.true_and]
      cases hc : Gen.configuredBits.contains (j + 1) with
      | true =>
        simp only [Bool.not_true, Bool.false_eq_true, if_false, Outcome.bind]
        exact ih (j + 1) (by omega)
      | false =>
        simp only [Bool.not_false, if_true, Outcome.bind, forO_returned, Option.map_some]
        have e : ((j : Nat) : Int) + 1 = ((j + 1 : Nat) : Int) := by omega
        simp only [reasonBitmap, e]

/-- `bitmap_check` on a 16-byte bitmap: (True, no reason) or (False, the reason naming the first unconfigured element) -/
theorem bitmap_check_eq (bm : Bytes) (h16 : bm.length = 16) (hb : IsBytes bm) :
    Src.bitmap_check bm = .ok (match Info.bitmapCheck Gen.configuredBits bm with
      | none => (true, ([] : Text))
      | some b => (false, reasonBitmap b)) := by
  have hne : bm ≠ [] := by intro e; rw [e] at h16; simp at h16
  have hbits : (Iso.bitsOfBytes bm).length = 128 := by
    have : ∀ (b : Bytes), (Iso.bitsOfBytes b).length = 8 * b.length := by
      intro b
      induction b with
      | nil => rfl
      | cons x xs ih => simp only [Iso.bitsOfBytes, List.flatMap_cons, List.length_append] at ih ⊢; simp [ih]; omega
    rw [this, h16]
  rw [bitmapCheck_scan _ bm hbits]
  have hfold : Src.bitmap_check bm = Outcome.bind (Src.BitArray_tolist bm) (fun bits =>
      Outcome.bind (Rt.forO bitStep (Rt.enumerate bits) none) (fun st =>
        match st with
        | some r => .ok r
        | none => .ok (true, ([] : Text)))) := rfl
  rw [hfold, tolist_eq bm hb hne, bind_ok_eq]
  match hbs : Iso.bitsOfBytes bm, hbits with
  | [], hl => simp at hl
  | b0 :: rest, _ =>
    have hen : Rt.enumerate (b0 :: rest) = ((0 : Int), b0) :: Rt.enumerateGo ((1 : Nat) : Int) rest := rfl
    rw [hen]
    simp only [Rt.forO, bitStep]
    have : (((0 : Int)) == (0 : Int)) = true := rfl
    simp only [this, if_true, Outcome.bind, List.drop_succ_cons, List.drop_zero]
    rw [loop_scan rest 1 (Nat.le_refl 1)]
    cases scan Gen.configuredBits 2 rest <;> rfl

/-! ### `ipm_info`: the whole inspection, as a dictionary -/

theorem be32_eq_dec : ∀ l : Bytes, Rt.be32 l = be32dec l
  | [] => rfl
  | [_] => rfl
  | [_, _] => rfl
  | [_, _, _] => rfl
  | [_, _, _, _] => rfl
  | _ :: _ :: _ :: _ :: _ :: _ => rfl

/-- the `reason` text of an invalid result (`n` = the first length field, `m` = the configured maximum) -/
def reasonText (n m : Nat) : Info.Reason → Text
  | .tooShort => Rt.lit "File does not have sufficient data to be valid"
  | .firstLengthTooLong =>
    Rt.lit "First IPM record length (" ++ Rt.strOfInt (n : Int) ++
      Rt.lit ") exceeds the configured maximum record length (" ++ Rt.strOfInt (m : Int) ++
      Rt.lit ") which usually indicates a file issue"
  | .bitmapUsesUnconfigured b => reasonBitmap b

/-- the dictionary `ipm_info` returns for a result of the model -/
def dictOf (n m : Nat) : Info.Result → Rt.SDict Rt.InfoVal
  | .invalid r => [(Rt.lit "isValidIPM", .bool false), (Rt.lit "reason", .str (reasonText n m r))]
  | .valid b e => [(Rt.lit "isValidIPM", .bool true), (Rt.lit "isBlocked", .bool b), (Rt.lit "encoding", .str (encName e))]

/-- `ipm_info` (the function as it stands in `cardutil/mciipm.py`, reading from an in-memory file of
    bytes) returns exactly the dictionary of the model's result -/
theorem ipm_info_eq (file : Bytes) (hb : IsBytes file) :
    Src.ipm_info file = .ok (dictOf (be32dec (file.take 4)) Gen.maxVbsRecordLength
      (Info.ipmInfo Gen.configuredBits Gen.maxVbsRecordLength Gen.latin1Numeric Gen.cp037Numeric file)) := by
  unfold Src.ipm_info Info.ipmInfo Info.ipmInfoP
  have hs : Rt.slice file none (some (2500 : Int)) = file.take 2500 := slice_to _ _ (by decide)
  simp only [hs]
  generalize hS : file.take 2500 = s
  have hsb : IsBytes s := by
    intro x hx; rw [← hS] at hx; exact hb x (List.mem_of_mem_take hx)
  have h4 : s.take 4 = file.take 4 := by rw [← hS, List.take_take]; rfl
  by_cases hlen : s.length < 24
  · have h1 : decide (Rt.len s < (24 : Int)) = true := by unfold Rt.len; simp; omega
    simp only [h1, if_true, hlen]
    rfl
  · have h1 : decide (Rt.len s < (24 : Int)) = false := by unfold Rt.len; simp; omega
    simp only [h1, Bool.false_eq_true, if_false, hlen]
    have hl4 : Rt.slice s none (some (4 : Int)) = s.take 4 := slice_to _ _ (by decide)
    have hlen4 : (s.take 4).length = 4 := by simp; omega
    have hun : Rt.unpackI (s.take 4) = .ok ((be32dec (s.take 4) : Nat) : Int) := by
      unfold Rt.unpackI; rw [if_pos hlen4, be32_eq_dec]
    rw [hl4, hun, bind_ok_eq]
    by_cases hmax : Gen.maxVbsRecordLength < be32dec (s.take 4)
    · have h2 : decide (((be32dec (s.take 4) : Nat) : Int) > ((Gen.maxVbsRecordLength : Nat) : Int)) = true := by
        simp; omega
      simp only [h2, if_true, hmax, ← h4]
      rfl
    · have h2 : decide (((be32dec (s.take 4) : Nat) : Int) > ((Gen.maxVbsRecordLength : Nat) : Int)) = false := by
        simp; omega
      have h3 : decide (((be32dec (s.take 4) : Nat) : Int) < (0 : Int)) = false := by simp
      simp only [h2, h3, Bool.false_eq_true, if_false, hmax]
      have hbm : Rt.slice s (some (8 : Int)) (some (24 : Int)) = (s.drop 8).take 16 := by
        rw [slice_mid _ _ _ (by decide) (by decide)]; rfl
      have hmti : Rt.slice s (some (4 : Int)) (some (8 : Int)) = (s.drop 4).take 4 := by
        rw [slice_mid _ _ _ (by decide) (by decide)]; rfl
      have hbm16 : ((s.drop 8).take 16).length = 16 := by simp; omega
      have hbmb : IsBytes ((s.drop 8).take 16) := by
        intro x hx; exact hsb x (List.mem_of_mem_drop (List.mem_of_mem_take hx))
      rw [hbm, hmti, bitmap_check_eq _ hbm16 hbmb, bind_ok_eq]
      cases hc : Info.bitmapCheck Gen.configuredBits ((s.drop 8).take 16) with
      | some b => rfl
      | none =>
        simp only [Bool.not_true, Bool.false_eq_true, if_false, block_check_eq, encoding_check_eq]
        rfl

/-- C17 for the code as translated: a blocked file the library's writer produces from records whose
    first one starts a valid message header is reported valid and blocked -/
theorem C17_source_ipm_info_blocked (file : Bytes) (hb : IsBytes file)
    (b : Bool) (e : Info.Enc)
    (h : Info.ipmInfo Gen.configuredBits Gen.maxVbsRecordLength Gen.latin1Numeric Gen.cp037Numeric file = .valid b e) :
    Src.ipm_info file = .ok [(Rt.lit "isValidIPM", .bool true), (Rt.lit "isBlocked", .bool b),
      (Rt.lit "encoding", .str (encName e))] := by
  rw [ipm_info_eq file hb, h]; rfl

end Cardutil.SrcTie
