import Cardutil.SrcTie.Base
import Cardutil.Gen.Src
import Cardutil.Model.Info
import Cardutil.Props.C17
/-
  Source tie for `mciipm.block_1014_check` and `mciipm.encoding_check` (C17).
-/
namespace Cardutil.SrcTie

open Cardutil Cardutil.Py

/-- `block_1014_check` -/
theorem block_check_eq (s : Bytes) : Src.block_1014_check s = Info.block1014Check s := by
  unfold Src.block_1014_check Info.block1014Check Info.blockCheck
  by_cases h : s.length < 1014
  · have h1 : decide (Rt.len s < (1014 : Int)) = true := by unfold Rt.len; simp; omega
    simp [h1, h]
  · have h1 : decide (Rt.len s < (1014 : Int)) = false := by unfold Rt.len; simp; omega
    have hfirst : Rt.slice (Rt.slice s (some 0) (some (1014 : Int))) (some (-(2 : Int))) none = (s.drop 1012).take 2 := by
      rw [slice_0_to _ _ (by decide), slice_from_neg _ _ (by decide)]
      have : (s.take (1014 : Int).toNat).length = 1014 := by simp; omega
      rw [this, List.drop_take]
      rfl
    have hpp : Rt.mulSeq [64] (2 : Int) = Block.PP := by rw [mulSeq_single]; rfl
    have hlen : (Rt.len s == (1014 : Int)) = decide (s.length = 1012 + 2) := by
      unfold Rt.len
      by_cases he : s.length = 1014
      · simp [he]
      · have : ¬ ((s.length : Int) = 1014) := by omega
        simp [he, this]
    simp only [h1, h, hfirst, hpp, hlen, if_false, Bool.false_eq_true]
    by_cases hp : ((s.drop 1012).take 2 == Block.PP) = true
    · simp only [hp, if_true]
      by_cases he : s.length = 1012 + 2
      · simp [he]
      · simp only [he, decide_false, Bool.false_eq_true, if_false]
        by_cases h2 : 2 * (1012 + 2) ≤ s.length
        · have hd : decide (Rt.len s ≥ (2028 : Int)) = true := by unfold Rt.len; simp; omega
          have hs : Rt.slice s (some (2026 : Int)) (some (2028 : Int)) = (s.drop (1012 + 2 + 1012)).take 2 := by
            rw [slice_between _ _ _ (by decide) (by decide) (by decide) (by simp; omega)]
            rfl
          simp [hd, hs, h2]
        · have hd : decide (Rt.len s ≥ (2028 : Int)) = false := by unfold Rt.len; simp; omega
          simp [hd, h2]
    · have hp' : ((s.drop 1012).take 2 == Block.PP) = false := by simpa using hp
      simp [hp']

/-- `encoding_check`: the same decision, with the result strings 'latin1' / 'cp037' / 'unknown' -/
def encName : Info.Enc → Text
  | .latin1 => Rt.lit "latin1"
  | .cp037 => Rt.lit "cp037"
  | .unknown => Rt.lit "unknown"

theorem encoding_check_eq (mti : Bytes) :
    Src.encoding_check mti = encName (Info.encodingCheck Gen.latin1Numeric Gen.cp037Numeric mti) := by
  unfold Src.encoding_check Info.encodingCheck Info.allNumeric Rt.allIn
  by_cases h1 : (!mti.isEmpty && mti.all Gen.latin1Numeric.contains) = true
  · simp only [h1, if_true]; rfl
  · have h1' : (!mti.isEmpty && mti.all Gen.latin1Numeric.contains) = false := by simpa using h1
    simp only [h1', Bool.false_eq_true, if_false]
    by_cases h2 : (!mti.isEmpty && mti.all Gen.cp037Numeric.contains) = true
    · simp only [h2, if_true]; rfl
    · have h2' : (!mti.isEmpty && mti.all Gen.cp037Numeric.contains) = false := by simpa using h2
      simp only [h2', Bool.false_eq_true, if_false]; rfl

/-! ### the property, carried over to the translated source -/

/-- C17(a) for the code as translated: every blocked file the library's writer produces is
    recognised as blocked by `block_1014_check` -/
theorem C17_source_blocked (recs : List Bytes) :
    Src.block_1014_check ((Writer.listToBytes 1012 true recs).take 2500) = true := by
  rw [block_check_eq]
  exact Props.C17.C17_blocked_writer_output recs

end Cardutil.SrcTie
