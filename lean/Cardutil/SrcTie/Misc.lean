import Cardutil.SrcTie.Base
import Cardutil.Gen.Src
import Cardutil.Model.Card
import Cardutil.Model.PinBlock
/-
  Source tie for two helpers: `iso8583._pan_prefix` (C16) and `pinblock._get_tsp` (C14).
-/
namespace Cardutil.SrcTie

open Cardutil Cardutil.Py

/-- `_pan_prefix` -/
theorem pan_prefix_eq (c : Text) : Src._pan_prefix c = Card.panPrefix c := by
  unfold Src._pan_prefix Card.panPrefix
  rw [slice_to _ _ (by decide)]
  rfl

/-- `_get_tsp` (the key index rendered with `str()`) -/
theorem get_tsp_eq (c : Text) (k : Int) (p : Text) :
    Src._get_tsp c k p = Pin.tsp c (Rt.strOfInt k) p := by
  unfold Src._get_tsp Pin.tsp Pin.rightmost11
  simp only []
  rw [slice_neg_neg _ _ _ (by decide) (by decide), slice_to _ _ (by decide)]
  rfl

end Cardutil.SrcTie
