import Cardutil.SrcTie.Block
import Cardutil.Props.C04
import Cardutil.Props.C05
/-
  Source tie for the one-shot functions `mciipm.block_1014` and `mciipm.unblock_1014` (C04, C05): plain functions over
  an input and an output file object, translated with the input's content still to be read and the output's content
  written so far as explicit values.  The translated loops ARE the model's `blockify 1012` and `unblock 1012`.
-/
namespace Cardutil.SrcTie

open Cardutil Cardutil.Py Cardutil.Block

def bBody (st : Bytes × Bytes) : Outcome (Bool × (Bytes × Bytes)) :=
  if (!(!(Rt.slice st.1 none (some (1012 : Int))).isEmpty)) then
    .ok (false, (Rt.slice st.1 (some (1012 : Int)) none, st.2))
  else
    (if ((Rt.len (Rt.slice st.1 none (some (1012 : Int)))) != (1012 : Int)) then
      .ok (true, (Rt.slice st.1 (some (1012 : Int)) none,
        st.2 ++ ((Rt.slice st.1 none (some (1012 : Int)) ++
          Rt.mulSeq [64] ((1012 : Int) - Rt.len (Rt.slice st.1 none (some (1012 : Int))))) ++ Rt.mulSeq [64] (2 : Int))))
    else
      .ok (true, (Rt.slice st.1 (some (1012 : Int)) none,
        st.2 ++ (Rt.slice st.1 none (some (1012 : Int)) ++ Rt.mulSeq [64] (2 : Int)))))

theorem block_1014_unfold (fuel : Nat) (d out : Bytes) :
    Src.block_1014 fuel d out = (Rt.whileO fuel (fun _ => true) bBody (d, out)).bind (fun st => .ok st.2) := rfl

/-- the translated loop = the model's one-shot blocker, appended to what was already written -/
theorem bBody_eq (d out : Bytes) :
    bBody (d, out) =
      if d.length = 0 then .ok (false, ([], out))
      else .ok (true, (d.drop 1012, out ++ (d.take 1012 ++ List.replicate (1012 - (d.take 1012).length) padByte ++ PP))) := by
  unfold bBody
  simp only [slice_to _ _ (show (0 : Int) ≤ 1012 by decide), slice_from _ _ (show (0 : Int) ≤ 1012 by decide), pp_eq]
  have e2 : (1012 : Int).toNat = 1012 := rfl
  rw [e2]
  by_cases h0 : d.length = 0
  · have hd : d = [] := List.eq_nil_of_length_eq_zero h0
    subst hd
    rfl
  · have hne : (List.take 1012 d).isEmpty = false := by
      cases d with
      | nil => exact absurd rfl h0
      | cons x xs => rfl
    simp only [hne, Bool.not_false, Bool.not_true, Bool.false_eq_true, if_false, h0]
    by_cases hlen : (List.take 1012 d).length = 1012
    · have h1 : (Rt.len (List.take 1012 d) != (1012 : Int)) = false := by unfold Rt.len; rw [hlen]; rfl
      simp only [h1, Bool.false_eq_true, if_false, hlen, Nat.sub_self, List.replicate_zero, List.append_nil]
    · have h1 : (Rt.len (List.take 1012 d) != (1012 : Int)) = true := by
        unfold Rt.len; exact bne_iff_ne.mpr (fun h => hlen (by omega))
      simp only [h1, if_true]
      rw [mulSeq_single]
      have : ((1012 : Int) - Rt.len (List.take 1012 d)).toNat = 1012 - (List.take 1012 d).length := by
        unfold Rt.len; omega
      rw [this]
      rfl

/-- the translated loop = the model's one-shot blocker, appended to what was already written -/
theorem block_loop : ∀ (fuel : Nat) (d out : Bytes), d.length < fuel →
    (Rt.whileO fuel (fun _ => true) bBody (d, out)).bind (fun st => .ok st.2) = .ok (out ++ blockify 1012 d) := by
  intro fuel
  induction fuel with
  | zero => intro d out h; omega
  | succ fuel ih =>
    intro d out hf
    rw [Rt.whileO, if_pos rfl, bBody_eq]
    by_cases h0 : d.length = 0
    · have hd : d = [] := List.eq_nil_of_length_eq_zero h0
      subst hd
      rw [blockify]
      simp
      rfl
    · simp only [h0, if_false, bind_ok_eq, if_true]
      rw [ih (d.drop 1012) _ (by simp; omega)]
      conv => rhs; rw [blockify]
      simp only [h0, if_false]
      by_cases hlt : 1012 < d.length
      · have hl : (List.take 1012 d).length = 1012 := by simp; omega
        simp only [hlt, true_and, show (0 : Nat) < 1012 by decide, if_true, hl, Nat.sub_self, List.replicate_zero,
          List.append_nil]
        simp [List.append_assoc]
      · have hdrop : d.drop 1012 = [] := List.drop_of_length_le (by omega)
        have hb0 : blockify 1012 [] = [] := by rw [blockify]; simp
        have : ¬ (1012 < d.length ∧ 0 < 1012) := by omega
        rw [hdrop, hb0]
        simp only [this, if_false]
        rw [List.take_of_length_le (by omega)]
        simp [List.append_assoc]

/-- `block_1014` as translated, started with nothing written: the model's one-shot blocker -/
theorem block_1014_eq (fuel : Nat) (d : Bytes) (hf : d.length < fuel) :
    Src.block_1014 fuel d [] = .ok (blockify 1012 d) := by
  rw [block_1014_unfold, block_loop fuel d [] hf]; rfl

def ubBody (st : Bytes × Bytes) : Outcome (Bool × (Bytes × Bytes)) :=
  if (!(!(Rt.slice st.1 none (some (1014 : Int))).isEmpty)) then
    .ok (false, (Rt.slice st.1 (some (1014 : Int)) none, st.2))
  else
    (if ((Rt.len (Rt.slice st.1 none (some (1014 : Int)))) != (1014 : Int)) then .dataError
     else
      (if ((Rt.slice (Rt.slice st.1 none (some (1014 : Int))) (some (-(2 : Int))) none) != (Rt.mulSeq [64] (2 : Int))) then .dataError
       else
        .ok (true, (Rt.slice st.1 (some (1014 : Int)) none,
          st.2 ++ Rt.slice (Rt.slice st.1 none (some (1014 : Int))) (some (0 : Int)) (some (1012 : Int))))))

theorem unblock_1014_unfold (fuel : Nat) (f out : Bytes) :
    Src.unblock_1014 fuel f out = (Rt.whileO fuel (fun _ => true) ubBody (f, out)).bind (fun st => .ok st.2) := rfl

theorem ubBody_eq (f out : Bytes) :
    ubBody (f, out) =
      if f.length = 0 then .ok (false, ([], out))
      else if f.length < 1012 + 2 then .dataError
      else if ((f.drop 1012).take 2 != PP) = true then .dataError
      else .ok (true, (f.drop (1012 + 2), out ++ f.take 1012)) := by
  unfold ubBody
  simp only [slice_to _ _ (show (0 : Int) ≤ 1014 by decide), slice_from _ _ (show (0 : Int) ≤ 1014 by decide), pp_eq]
  have e2 : (1014 : Int).toNat = 1012 + 2 := rfl
  rw [e2]
  by_cases h0 : f.length = 0
  · have hd : f = [] := List.eq_nil_of_length_eq_zero h0
    subst hd
    rfl
  · have hne : (List.take (1012 + 2) f).isEmpty = false := by
      cases f with
      | nil => exact absurd rfl h0
      | cons x xs => rfl
    simp only [hne, Bool.not_false, Bool.not_true, Bool.false_eq_true, if_false, h0]
    by_cases hlt : f.length < 1012 + 2
    · have hlen : (Rt.len (List.take (1012 + 2) f) != (1014 : Int)) = true := by unfold Rt.len; simp; omega
      simp only [hlen, if_true, hlt]
    · have hlen : (Rt.len (List.take (1012 + 2) f) != (1014 : Int)) = false := by unfold Rt.len; simp; omega
      simp only [hlen, Bool.false_eq_true, if_false, hlt]
      have htl : (List.take (1012 + 2) f).length = 1014 := by simp; omega
      have htr : Rt.slice (List.take (1012 + 2) f) (some (-(2 : Int))) none = (f.drop 1012).take 2 := by
        rw [slice_from_neg _ _ (by decide), htl, List.drop_take]
        rfl
      have hpay : Rt.slice (List.take (1012 + 2) f) (some (0 : Int)) (some (1012 : Int)) = f.take 1012 := by
        rw [slice_0_to _ _ (by decide), List.take_take]
        rfl
      rw [htr, hpay]

/-- the translated validating loop = the model's `unblock 1012` (`none` = the library's data error) -/
theorem unblock_loop : ∀ (fuel : Nat) (f out : Bytes), f.length < fuel →
    (Rt.whileO fuel (fun _ => true) ubBody (f, out)).bind (fun st => .ok st.2) =
      (match unblock 1012 f with
       | some p => .ok (out ++ p)
       | none => .dataError) := by
  intro fuel
  induction fuel with
  | zero => intro f out h; omega
  | succ fuel ih =>
    intro f out hf
    rw [Rt.whileO, if_pos rfl, ubBody_eq]
    conv => rhs; rw [unblock]
    by_cases h0 : f.length = 0
    · simp [h0]; rfl
    · simp only [h0, if_false]
      by_cases hlt : f.length < 1012 + 2
      · simp only [hlt, if_true]; rfl
      · simp only [hlt, if_false]
        by_cases hp : ((f.drop 1012).take 2 != PP) = true
        · simp only [hp, if_true]; rfl
        · have hp' : ((f.drop 1012).take 2 != PP) = false := by simpa using hp
          simp only [hp', Bool.false_eq_true, if_false, bind_ok_eq, if_true]
          rw [ih (f.drop (1012 + 2)) _ (by simp; omega)]
          cases unblock 1012 (f.drop (1012 + 2)) with
          | none => rfl
          | some p => simp [List.append_assoc]

/-- `unblock_1014` as translated: the payloads of a well-blocked input, the library's data error for anything else -/
theorem unblock_1014_eq (fuel : Nat) (f : Bytes) (hf : f.length < fuel) :
    Src.unblock_1014 fuel f [] = (match unblock 1012 f with
      | some p => .ok p
      | none => .dataError) := by
  rw [unblock_1014_unfold, unblock_loop fuel f [] hf]
  cases unblock 1012 f <;> rfl

/-- C05(c) for the functions as translated: the translated unblocker applied to the output of the translated blocker
    returns the data followed by fewer than 1012 fill bytes -/
theorem C05_source_oneshot_inverse (fuel : Nat) (d : Bytes) (hf : (blockify 1012 d).length < fuel) (hd : d.length < fuel) :
    ∃ blocked k, Src.block_1014 fuel d [] = .ok blocked ∧ k < 1012 ∧
      Src.unblock_1014 fuel blocked [] = .ok (d ++ List.replicate k padByte) := by
  obtain ⟨k, hk, hu⟩ := Props.C05.C05_unblock_block d
  refine ⟨blockify 1012 d, k, block_1014_eq fuel d hd, hk, ?_⟩
  rw [unblock_1014_eq fuel _ hf, hu]

/-- … and C05(c), refusal: an input the model's `wellBlocked` rejects (not a whole number of blocks, or a wrong
    trailer) is refused by the translated unblocker with the library's data error -/
theorem C05_source_oneshot_refuses (fuel : Nat) (f : Bytes) (hf : f.length < fuel) (hw : wellBlocked 1012 f = false) :
    Src.unblock_1014 fuel f [] = .dataError := by
  rw [unblock_1014_eq fuel f hf, Props.C05.C05_unblock_iff, hw]
  rfl

/-- C04 for the one-shot blocker as translated: whole blocks with trailers, the data followed by fill -/
theorem C04_source_oneshot (fuel : Nat) (d : Bytes) (hd : d.length < fuel) :
    ∃ out, Src.block_1014 fuel d [] = .ok out ∧ wellBlocked 1012 out = true ∧
      ∃ k, k < 1012 ∧ payloads 1012 out = d ++ List.replicate k padByte := by
  obtain ⟨hwb, k, hk, hp⟩ := Props.C04.C04_oneshot d
  exact ⟨blockify 1012 d, block_1014_eq fuel d hd, hwb, k, hk, hp⟩

end Cardutil.SrcTie
