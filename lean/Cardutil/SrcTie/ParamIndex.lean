import Cardutil.SrcTie.ParamRow
/-
  Source tie for the index-loading loop of `mciipm.IpmParamReader.__init__` (C18): one round of
  `while True: try: vbs_record = super().__next__() except StopIteration: break; …` — decode the record, file an
  IP0000T1 entry in the table index, stop at the index trailer — translated as a function of the record and the loop's
  state, iterated over the records the base reader delivers, and related to the model's `Param.scanIndex`; then the
  two phases together: index loop, trailer test, row loop = the model's `Param.read`.
-/
namespace Cardutil.SrcTie

open Cardutil Cardutil.Py

/-- the reader's dictionary and the model's index answer every lookup alike (their list representations differ:
    the dictionary replaces in place, the model puts the newest entry first) -/
def SameLookup (ix : Rt.SDict Text) (ixm : Param.Index) : Prop := ∀ k, Rt.dictGetOpt ix k = ixm.lookup k

theorem dictGetOpt_dictSet {β} (d : Rt.SDict β) (k k' : Text) (v : β) :
    Rt.dictGetOpt (Rt.dictSet d k v) k' = if k == k' then some v else Rt.dictGetOpt d k' := by
  induction d with
  | nil =>
    simp only [Rt.dictSet, Rt.dictGetOpt, List.find?]
    cases h : (k == k') <;> simp
  | cons kv rest ih =>
    obtain ⟨k0, v0⟩ := kv
    rw [Rt.dictSet]
    by_cases h0 : k0 = k
    · subst h0
      simp only [beq_self_eq_true, if_true, Rt.dictGetOpt, List.find?]
      cases h : (k0 == k') <;> simp
    · have hb : (k0 == k) = false := by rw [beq_eq_false_iff_ne]; exact h0
      simp only [hb, Bool.false_eq_true, if_false]
      simp only [Rt.dictGetOpt, List.find?] at ih ⊢
      by_cases h1 : k0 = k'
      · subst h1
        have : (k == k0) = false := by rw [beq_eq_false_iff_ne]; exact fun e => h0 e.symm
        simp [this]
      · have hb1 : (k0 == k') = false := by rw [beq_eq_false_iff_ne]; exact h1
        simp only [hb1]
        exact ih

theorem lookup_set (ixm : Param.Index) (k k' v : Text) :
    (ixm.set k v).lookup k' = if k == k' then some v else ixm.lookup k' := by
  unfold Param.Index.set Param.Index.lookup
  by_cases h : k = k'
  · subst h; simp
  · have hb : (k == k') = false := by rw [beq_eq_false_iff_ne]; exact h
    simp only [List.find?, hb, Bool.false_eq_true, if_false]
    congr 1
    induction ixm with
    | nil => rfl
    | cons kv rest ih =>
      by_cases h1 : kv.1 = k
      · have : (kv.1 != k) = false := by simp [h1]
        have h2 : (kv.1 == k') = false := by rw [beq_eq_false_iff_ne, h1]; exact h
        simp only [List.filter, this, List.find?, h2]
        exact ih
      · have : (kv.1 != k) = true := by simp [h1]
        simp only [List.filter, this, List.find?]
        cases (kv.1 == k')
        · exact ih
        · rfl

theorem sameLookup_set (ix : Rt.SDict Text) (ixm : Param.Index) (h : SameLookup ix ixm) (k v : Text) :
    SameLookup (Rt.dictSet ix k v) (ixm.set k v) := by
  intro k'
  rw [dictGetOpt_dictSet, lookup_set, h k']

/-- one round of the loop, for a record the base reader delivered: the model's step -/
def indexStep (c : Codec) (ix : Rt.SDict Text) (found : Bool) (r : Bytes) : Outcome (Rt.SDict Text × (Bool × Bool)) :=
  match c.decode r with
  | none => .escape .unicodeError
  | some t =>
    let ix' := if Py.slice t 11 19 == Param.ip0000t1 then Rt.dictSet ix (Py.slice t 243 246) (Py.slice t 19 27) else ix
    if t.take Param.trailerPrefix.length == Param.trailerPrefix then .ok (ix', (true, true)) else .ok (ix', (found, false))

theorem index_step_eq (c : Codec) (x : Bool) (ix : Rt.SDict Text) (cfg : Rt.SDict (Rt.SDict (Rt.SDict Int))) (tid : Text)
    (r : Bytes) (found : Bool) :
    Src.IpmParamReader_index_step x (decoderOfCodec c) ix cfg tid r found = indexStep c ix found r := by
  unfold Src.IpmParamReader_index_step indexStep decoderOfCodec
  cases c.decode r with
  | none => rfl
  | some t =>
    have e1 : Rt.slice t (some (11 : Int)) (some (19 : Int)) = Py.slice t 11 19 := slice_nn t 11 19
    have e2 : Rt.slice t (some (243 : Int)) (some (246 : Int)) = Py.slice t 243 246 := slice_nn t 243 246
    have e3 : Rt.slice t (some (19 : Int)) (some (27 : Int)) = Py.slice t 19 27 := slice_nn t 19 27
    simp only [bind_ok_eq, e1, e2, e3]
    have hk : ([73, 80, 48, 48, 48, 48, 84, 49] : Text) = Param.ip0000t1 := rfl
    have ht : ([84, 82, 65, 73, 76, 69, 82, 32, 82, 69, 67, 79, 82, 68, 32, 73, 80, 48, 48, 48, 48, 84, 49] : Text) =
        Param.trailerPrefix := rfl
    rw [ht, hk]
    simp only [Rt.startsWith]
    by_cases h1 : (Py.slice t 11 19 == Param.ip0000t1) = true
    · simp only [h1, if_true]
      by_cases h2 : (List.take Param.trailerPrefix.length t == Param.trailerPrefix) = true
      · simp only [h2, if_true]
      · simp only [h2, Bool.false_eq_true, if_false]
    · simp only [h1, Bool.false_eq_true, if_false]
      by_cases h2 : (List.take Param.trailerPrefix.length t == Param.trailerPrefix) = true
      · simp only [h2, if_true]
      · simp only [h2, Bool.false_eq_true, if_false]

/-- the loop: rounds until the trailer is seen or the records run out; answers the index, whether the trailer was seen,
    and the records not yet read -/
def srcScanIndex (x : Bool) (dec : Bytes → Outcome Text) (cfg : Rt.SDict (Rt.SDict (Rt.SDict Int))) (tid : Text) :
    List Bytes → Rt.SDict Text → Bool → Outcome (Rt.SDict Text × (Bool × List Bytes))
  | [], ix, found => .ok (ix, (found, []))
  | r :: rs, ix, found =>
    (Src.IpmParamReader_index_step x dec ix cfg tid r found).bind (fun st =>
      if st.2.2 then .ok (st.1, (st.2.1, rs)) else srcScanIndex x dec cfg tid rs st.1 st.2.1)

/-- the translated index loop against the model's `scanIndex`: same outcome, an index that answers every lookup alike,
    the same records left for the row loop -/
theorem scan_index_eq (c : Codec) (x : Bool) (cfg : Rt.SDict (Rt.SDict (Rt.SDict Int))) (tid : Text) (recs : List Bytes) :
    ∀ (ix : Rt.SDict Text) (ixm : Param.Index), SameLookup ix ixm →
    match Param.scanIndex c recs ixm with
    | .ok none => ∃ ix', srcScanIndex x (decoderOfCodec c) cfg tid recs ix false = .ok (ix', (false, []))
    | .ok (some (ixm', rest)) => ∃ ix', srcScanIndex x (decoderOfCodec c) cfg tid recs ix false = .ok (ix', (true, rest)) ∧
        SameLookup ix' ixm'
    | .escape k => srcScanIndex x (decoderOfCodec c) cfg tid recs ix false = .escape k
    | .dataError => False
    | .diverge => False := by
  induction recs with
  | nil => intro ix ixm _; exact ⟨ix, rfl⟩
  | cons r rs ih =>
    intro ix ixm hs
    rw [Param.scanIndex, srcScanIndex, index_step_eq]
    unfold indexStep
    cases hd : c.decode r with
    | none => rfl
    | some t =>
      simp only []
      by_cases h1 : (Py.slice t 11 19 == Param.ip0000t1) = true
      · simp only [h1, if_true]
        have hs' := sameLookup_set ix ixm hs (Py.slice t 243 246) (Py.slice t 19 27)
        by_cases h2 : (List.take Param.trailerPrefix.length t == Param.trailerPrefix) = true
        · simp only [h2, if_true, bind_ok_eq]
          exact ⟨_, rfl, hs'⟩
        · simp only [h2, Bool.false_eq_true, if_false, bind_ok_eq]
          exact ih _ _ hs'
      · simp only [h1, Bool.false_eq_true, if_false]
        by_cases h2 : (List.take Param.trailerPrefix.length t == Param.trailerPrefix) = true
        · simp only [h2, if_true, bind_ok_eq]
          exact ⟨_, rfl, hs⟩
        · simp only [h2, Bool.false_eq_true, if_false, bind_ok_eq]
          exact ih _ _ hs

theorem rowOf_congr (c : Codec) (cols : List (Nat × Nat)) (table : Text) (expanded : Bool) (ix ix' : Param.Index)
    (h : ∀ k, ix.lookup k = ix'.lookup k) (r : Bytes) :
    Param.rowOf c cols table expanded ix r = Param.rowOf c cols table expanded ix' r := by
  unfold Param.rowOf
  simp only [h]

theorem rowsOf_congr (c : Codec) (cols : List (Nat × Nat)) (table : Text) (expanded : Bool) (ix ix' : Param.Index)
    (h : ∀ k, ix.lookup k = ix'.lookup k) (last : Param.PEnd) (recs : List Bytes) :
    Param.rowsOf c cols table expanded ix last recs = Param.rowsOf c cols table expanded ix' last recs := by
  induction recs with
  | nil => rfl
  | cons r rs ih => rw [Param.rowsOf, Param.rowsOf, rowOf_congr c cols table expanded ix ix' h r, ih]

/-- C18, the refusal: over records in which the model finds no index trailer, the translated index loop ends with the
    flag `trailer_record_found` still False — the flag the constructor tests to raise the library's error -/
theorem C18_source_missing_trailer (c : Codec) (x : Bool) (cfg : Rt.SDict (Rt.SDict (Rt.SDict Int))) (tid : Text)
    (recs : List Bytes) (h : Param.scanIndex c recs [] = .ok none) :
    ∃ ix', srcScanIndex x (decoderOfCodec c) cfg tid recs [] false = .ok (ix', (false, [])) := by
  have := scan_index_eq c x cfg tid recs [] [] (fun _ => rfl)
  rw [h] at this
  exact this

/-- C18, both phases of the reader as translated: when the index trailer is there, the index loop stops at it with the
    flag True, and the row loop over the records after it returns the dictionaries of exactly the rows of the model's
    `read` — the rows of the requested table, in file order, each with every configured column — ending the same way -/
theorem C18_source_two_phases (c : Codec) (cfg : Rt.SDict (Rt.SDict (Rt.SDict Int))) (table : Text) (expanded : Bool)
    (layout : Rt.SDict (Rt.SDict Int)) (cols : List (Nat × Nat)) (last : Param.PEnd)
    (hcfg : Rt.dictGet cfg table = .ok layout) (hl : Layout layout cols) (hfresh : FreshColumns layout)
    (hne : cols.isEmpty = false)
    (recs : List Bytes) (ixm : Param.Index) (rest : List Bytes) (h : Param.scanIndex c recs [] = .ok (some (ixm, rest))) :
    ∃ ix', srcScanIndex expanded (decoderOfCodec c) cfg table recs [] false = .ok (ix', (true, rest)) ∧
      srcParamRows expanded (decoderOfCodec c) ix' cfg table last rest =
        ((Param.read c (some cols) table expanded recs last).1.map (rowDict (layout.map (·.1))),
         (Param.read c (some cols) table expanded recs last).2) := by
  have := scan_index_eq c expanded cfg table recs [] [] (fun _ => rfl)
  rw [h] at this
  obtain ⟨ix', h1, h2⟩ := this
  refine ⟨ix', h1, ?_⟩
  rw [C18_source_rows c ix' cfg table expanded layout cols last hcfg hl hfresh rest]
  have hc : Param.rowsOf c cols table expanded ix' last rest = Param.rowsOf c cols table expanded ixm last rest :=
    rowsOf_congr c cols table expanded ix' ixm (fun k => h2 k) last rest
  rw [hc]
  unfold Param.read
  simp only [hne, Bool.false_eq_true, if_false, h]

end Cardutil.SrcTie
