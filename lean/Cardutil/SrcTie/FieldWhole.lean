import Cardutil.SrcTie.LoopRoundTrip
import Cardutil.SrcTie.Field
import Cardutil.Lemmas.IsoField
import Cardutil.Props.C01
import Cardutil.Lemmas.IsoSafe
/-
  Source tie for the WHOLE element decoder `iso8583._iso8583_to_field` (C01, C07, C16): framing, text decoding (not for
  the binary ICC element), the card-number processors, the typed conversion, and the derived entries (PDS sub-elements,
  the DE43 parts through an external function, ICC tags) — translated as one function.  For a TEXT element (no
  processor, no typed conversion) it is the framing statements followed by decoding the element's bytes, with the one
  entry 'DE<bit>'.
-/
namespace Cardutil.SrcTie

open Cardutil Cardutil.Py Cardutil.Iso

abbrev De43 := Text → Option Text → Outcome (Rt.SDict Text)

/-- an element without a typed conversion: the decoded text is the value -/
theorem string_to_pytype_untyped (t : Text) (cfg : Rt.BitCfg) (hpy : cfg.field_python_type = []) :
    Src._string_to_pytype t cfg = .ok (Rt.PyVal.str t) := by
  unfold Src._string_to_pytype
  simp only [hpy]
  have h1 : List.contains [[105, 110, 116], [108, 111, 110, 103]] ([] : Text) = false := by decide
  have h2 : (([] : Text) == [100, 101, 99, 105, 109, 97, 108]) = false := by decide
  have h3 : (([] : Text) == [100, 97, 116, 101, 116, 105, 109, 101]) = false := by decide
  simp only [h1, h2, h3, Bool.false_eq_true, if_false]

/-- a TEXT element (no processor, no typed conversion): the whole element decoder is the framing statements, the
    decoding of the element's bytes under its handler, and the single entry 'DE<bit>' -/
theorem whole_text (fuel : Nat) (X : De43) (bit : Int) (cfg : Rt.BitCfg) (data : Bytes) (dec : Bytes → Outcome Text)
    (hproc : cfg.field_processor = []) (hpy : cfg.field_python_type = []) :
    Src._iso8583_to_field_whole fuel X bit cfg data dec =
      (Src._iso8583_to_field_frame cfg data dec).bind (fun fr =>
        (Rt.catchData [.unicodeError] (dec fr.1)).bind (fun t => .ok ([(deKey bit, Rt.PyVal.str t)], fr.2))) := by
  unfold Src._iso8583_to_field_whole Src._iso8583_to_field_frame
  have e1 : (([] : Text) != [73, 67, 67]) = true := by decide
  have e2 : (([] : Text) == [80, 65, 78]) = false := by decide
  have e3 : (([] : Text) == [80, 65, 78, 45, 80, 82, 69, 70, 73, 88]) = false := by decide
  have e4 : (([] : Text) == [80, 68, 83]) = false := by decide
  have e5 : (([] : Text) == [68, 69, 52, 51]) = false := by decide
  simp only [hproc, e1, e2, e3, e4, e5, if_true, Bool.false_eq_true, if_false]
  by_cases hls : decide (Src._get_field_length cfg > (0 : Int)) = true
  · simp only [hls, if_true]
    cases Rt.catchData [.unicodeError] (dec (Rt.slice data none (some (Src._get_field_length cfg)))) with
    | ok t1 =>
      simp only [bind_ok_eq]
      cases Rt.catchData [.valueError] (Rt.intOfStr Gen.intClasses t1) with
      | ok n =>
        simp only [bind_ok_eq]
        by_cases hneg : decide (n < (0 : Int)) = true
        · simp only [hneg, if_true]; rfl
        · simp only [hneg, Bool.false_eq_true, if_false, bind_ok_eq]
          cases Rt.catchData [.unicodeError]
              (dec (Rt.slice data (some (Src._get_field_length cfg)) (some (Src._get_field_length cfg + n)))) with
          | ok t =>
            simp only [bind_ok_eq, string_to_pytype_untyped t cfg hpy, catch_ok]
            rfl
          | dataError => rfl
          | escape k => rfl
          | diverge => rfl
      | dataError => rfl
      | escape k => rfl
      | diverge => rfl
    | dataError => rfl
    | escape k => rfl
    | diverge => rfl
  · simp only [hls, Bool.false_eq_true, if_false, bind_ok_eq]
    cases Rt.catchData [.unicodeError]
        (dec (Rt.slice data (some (Src._get_field_length cfg)) (some (Src._get_field_length cfg + cfg.field_length)))) with
    | ok t =>
      simp only [bind_ok_eq, string_to_pytype_untyped t cfg hpy, catch_ok]
      rfl
    | dataError => rfl
    | escape k => rfl
    | diverge => rfl

/-- a text value that fits its element: encodable, not empty, exactly the width of a fixed element, countable by the
    prefix of a variable one -/
structure FitsText (env : Env) (f : FieldCfg) (t : Text) (bs : Bytes) : Prop where
  untyped : f.pytype = .str
  enc : env.codec.encode t = some bs
  fixed : f.prefixLen = 0 → t.length = f.length
  var : 0 < f.prefixLen → t.length < 10 ^ f.prefixLen

/-- the TRANSLATED element encoder and the TRANSLATED whole element decoder on a text element: the rendering of a value
    that fits is decoded back to that value, whatever follows it in the message, and the pointer advances by exactly the
    rendering's length -/
theorem text_element_recovered (env : Env) (henv : EnvOK env) (hk : env.classes = Gen.intClasses)
    (fuel : Nat) (X : De43) (bit : Int) (f : FieldCfg) (t : Text) (bs : Bytes) (hfit : FitsText env f t bs) :
    ∃ r, Src._field_to_iso8583 (fun v _ => .ok v) (toRt f) (.str t) (encodeText env) = .ok r ∧
      ∀ rest : Bytes, Src._iso8583_to_field_whole fuel X bit (toRt f) (r ++ rest) (decoderOf env) =
        .ok ([(deKey bit, Rt.PyVal.str t)], (r.length : Int)) := by
  have hlen : bs.length = t.length := Codec.encode_length hfit.enc
  have hdec : env.codec.decode bs = some t := Codec.decode_encode henv.lawful hfit.enc
  have hdecO : decoderOf env bs = .ok t := by unfold decoderOf; rw [hdec]
  rw [field_untyped_eq env f (.str t) hfit.untyped]
  rcases Nat.eq_zero_or_pos f.prefixLen with hls | hls
  · -- fixed width: exactly the width, so no padding and no truncation
    have hw : t.length = f.length := hfit.fixed hls
    have hfitL : fitLeft f.length t = t := by
      unfold fitLeft
      rw [List.take_of_length_le (by omega), hw]; simp
    refine ⟨bs, ?_, ?_⟩
    · simp only [ofSB, encodeField, pyTypeToString, hfit.untyped, Outcome.bind, hls, if_true, hfitL, encodeText_ok hfit.enc]
    · intro rest
      rw [whole_text fuel X bit (toRt f) (bs ++ rest) (decoderOf env) rfl rfl, field_frame_eq env f _ hk,
        fieldLength_fixed env f hls, bind_ok_eq, bind_ok_eq]
      simp only [hls, List.drop_zero]
      rw [← hw, ← hlen, List.take_left' rfl, hdecO, catch_ok, bind_ok_eq]
      simp
  · -- variable length: prefix then the bytes
    have hlt : t.length < 10 ^ f.prefixLen := hfit.var hls
    obtain ⟨p, hpe, hpl, hpd, hpi⟩ := prefix_roundtrip henv f.prefixLen t.length hls hlt
    refine ⟨p ++ bs, ?_, ?_⟩
    · simp only [ofSB, encodeField, pyTypeToString, hfit.untyped, Outcome.bind]
      rw [if_neg (by omega), if_neg (by omega)]
      simp only [encodeText_ok hpe, encodeText_ok hfit.enc]
    · intro rest
      rw [whole_text fuel X bit (toRt f) (p ++ bs ++ rest) (decoderOf env) rfl rfl, field_frame_eq env f _ hk,
        List.append_assoc, fieldLength_var henv f hls t.length hlt p (bs ++ rest) hpd hpl hpi, bind_ok_eq, bind_ok_eq]
      simp only []
      rw [← hpl, List.drop_left' rfl, ← hlen, List.take_left' rfl, hdecO, catch_ok, bind_ok_eq]
      simp [Nat.add_comm]

/-- C07 for the whole element decoder as translated, on a TEXT element and ANY bytes: it returns a value or raises the
    library's data error — a length prefix that does not decode, is no number or is negative, and text bytes that do not
    decode are all the data error; nothing else escapes and nothing diverges -/
theorem C07_source_text_element_total (env : Env) (hk : env.classes = Gen.intClasses) (fuel : Nat) (X : De43) (bit : Int)
    (f : FieldCfg) (data : Bytes) :
    (∃ r, Src._iso8583_to_field_whole fuel X bit (toRt f) data (decoderOf env) = .ok r) ∨
      Src._iso8583_to_field_whole fuel X bit (toRt f) data (decoderOf env) = .dataError := by
  rw [whole_text fuel X bit (toRt f) data (decoderOf env) rfl rfl, field_frame_eq env f data hk]
  rcases Iso.safe_cases (Iso.fieldLength_safe env f data) with ⟨n, hn⟩ | hn
  · rw [hn, bind_ok_eq, bind_ok_eq]
    simp only []
    unfold decoderOf
    cases env.codec.decode (List.take n (List.drop f.prefixLen data)) with
    | some t => exact .inl ⟨_, rfl⟩
    | none => exact .inr rfl
  · rw [hn]; exact .inr rfl

/-! ### whole messages of text elements: nothing is left as a parameter but the codec tables -/

/-- the element encoder the loop calls, for text values: the TRANSLATED `_field_to_iso8583` (the loop fragment and the
    element encoder were translated with different renderings of "a value of any type"; this adapter joins them) -/
def textFieldEnc : FieldEnc := fun cfg v enc =>
  match v with
  | some (.str t) => Src._field_to_iso8583 (fun v _ => .ok v) cfg (.str t) enc
  | _ => .escape .typeError

/-- element `b` of the message is a text value that fits its configured element -/
def TextElem (env : Env) (message : Rt.SDict Rt.AnyVal) (cfg : Rt.SDict Rt.BitCfg) (b : Int) : Prop :=
  ∃ f t bs, Rt.dictGet cfg (Rt.strOfInt b) = .ok (toRt f) ∧ Rt.dictGetOpt message (deKey b) = some (.str t) ∧
    FitsText env f t bs

/-- what decoding is expected to return: for each listed element, its entry 'DE<b>' with the text given -/
def decodedOf (message : Rt.SDict Rt.AnyVal) : List Int → Rt.SDict Rt.PyVal → Rt.SDict Rt.PyVal
  | [], acc => acc
  | b :: bs, acc =>
    decodedOf message bs (match Rt.dictGetOpt message (deKey b) with
      | some (.str t) => Rt.dictUpdate acc [(deKey b, Rt.PyVal.str t)]
      | _ => acc)

theorem recovers_text (env : Env) (henv : EnvOK env) (hk : env.classes = Gen.intClasses) (fuel : Nat) (X : De43)
    (message : Rt.SDict Rt.AnyVal) (cfg : Rt.SDict Rt.BitCfg) :
    ∀ (bs : List Int) (acc : Rt.SDict Rt.PyVal), (∀ b ∈ bs, TextElem env message cfg b) →
      Recovers (Src._iso8583_to_field_whole fuel X) textFieldEnc message cfg (encodeText env) (decoderOf env)
        bs acc (decodedOf message bs acc) := by
  intro bs
  induction bs with
  | nil => intro acc _; exact Recovers.nil acc
  | cons b bs ih =>
    intro acc h
    obtain ⟨f, t, bytes, hcfg, hget, hfit⟩ := h b (by simp)
    obtain ⟨r, hE, hD⟩ := text_element_recovered env henv hk fuel X b f t bytes hfit
    have hstep : decodedOf message (b :: bs) acc =
        decodedOf message bs (Rt.dictUpdate acc [(deKey b, Rt.PyVal.str t)]) := by
      rw [decodedOf, hget]
    rw [hstep]
    refine Recovers.cons b bs acc (toRt f) r [(deKey b, Rt.PyVal.str t)] _ hcfg ?_ hD
      (ih _ (fun x hx => h x (by simp [hx])))
    show textFieldEnc (toRt f) (Rt.dictGetOpt message (deKey b)) (encodeText env) = .ok r
    rw [hget]
    exact hE

/-- C01 for the code as translated, END TO END, for messages of text elements: the translated encoder loop and assembly
    (with the translated `_field_to_iso8583` and the translated `BitArray`), then the translated `_iso8583_to_dict` with the
    translated WHOLE element decoder — every text value that fits its element comes back under its key, next to the MTI.
    No encoder, decoder or bitmap reader is left as a parameter: what remains are the codec tables (`EnvOK`: a lawful
    single-byte codec that has the digits) and the DE43 helper, which a text element never reaches. -/
theorem C01_source_text_roundtrip (env : Env) (henv : EnvOK env) (hk : env.classes = Gen.intClasses) (fuel : Nat) (X : De43)
    (message : Rt.SDict Rt.AnyVal) (cfg : Rt.SDict Rt.BitCfg) (out mti : Bytes) (t : Text) (n : Int)
    (helems : ∀ b ∈ presentBits message, TextElem env message cfg b)
    (henc : Src._dict_to_iso8583_loop textFieldEnc message cfg (encodeText env) false = .ok out)
    (hmti : mtiOf message (encodeText env) = .ok mti) (h4 : mti.length = 4) (hd : decoderOf env mti = .ok t)
    (hn : Rt.pyvalInt Gen.intClasses (Rt.PyVal.str t) = .ok n) :
    Src._iso8583_to_dict bitmapReader (Src._iso8583_to_field_whole fuel X) out cfg (decoderOf env) false =
      .ok (decodedOf message (presentBits message) [([77, 84, 73], Rt.PyVal.str t)]) :=
  C01_source_whole_roundtrip_bits textFieldEnc (Src._iso8583_to_field_whole fuel X) message cfg (encodeText env)
    (decoderOf env) out mti t n _ henc hmti h4 hd hn
    (recovers_text env henv hk fuel X message cfg (presentBits message) _ helems)

/-- … at the three production codecs (latin-1, cp500, cp037, whose tables are re-measured from the interpreter on every
    run): no hypothesis about the environment is left -/
theorem C01_source_text_roundtrip_production (c : Codec) (hc : c = Gen.latin_1 ∨ c = Gen.cp500 ∨ c = Gen.cp037)
    (pd : Text → Option DateTime) (fuel : Nat) (X : De43)
    (message : Rt.SDict Rt.AnyVal) (cfg : Rt.SDict Rt.BitCfg) (out mti : Bytes) (t : Text) (n : Int)
    (helems : ∀ b ∈ presentBits message, TextElem (Props.C01.envOf c pd) message cfg b)
    (henc : Src._dict_to_iso8583_loop textFieldEnc message cfg (encodeText (Props.C01.envOf c pd)) false = .ok out)
    (hmti : mtiOf message (encodeText (Props.C01.envOf c pd)) = .ok mti) (h4 : mti.length = 4)
    (hd : decoderOf (Props.C01.envOf c pd) mti = .ok t)
    (hn : Rt.pyvalInt Gen.intClasses (Rt.PyVal.str t) = .ok n) :
    Src._iso8583_to_dict bitmapReader (Src._iso8583_to_field_whole fuel X) out cfg
        (decoderOf (Props.C01.envOf c pd)) false =
      .ok (decodedOf message (presentBits message) [([77, 84, 73], Rt.PyVal.str t)]) := by
  have henv : EnvOK (Props.C01.envOf c pd) := by
    rcases hc with rfl | rfl | rfl
    · exact Props.C01.envOK_latin1 pd
    · exact Props.C01.envOK_cp500 pd
    · exact Props.C01.envOK_cp037 pd
  exact C01_source_text_roundtrip (Props.C01.envOf c pd) henv rfl fuel X message cfg out mti t n helems henc hmti h4 hd hn

/-! ### the translated code run by the kernel on a concrete message (a test, labelled as one: two text elements) -/

def exEnv : Env := Props.C01.envOf Gen.latin_1 (fun _ => none)
def exCfg : Rt.SDict Rt.BitCfg :=
  [(Rt.lit "2", toRt { ftype := .llvar, length := 0, proc := .none, pytype := .str, dateFmt := [] }),
   (Rt.lit "3", toRt { ftype := .fixed, length := 6, proc := .none, pytype := .str, dateFmt := [] })]
def exMsg : Rt.SDict Rt.AnyVal :=
  [(Rt.lit "MTI", .str (Rt.lit "1144")), (Rt.lit "DE2", .str (Rt.lit "4444555566667777")), (Rt.lit "DE3", .str (Rt.lit "123456"))]

/-- MTI, bitmap x'E0 00 …' (bits 1, 2, 3), '16' + the card number, the processing code -/
example : Src._dict_to_iso8583_loop textFieldEnc exMsg exCfg (encodeText exEnv) false =
    .ok (Rt.lit "1144" ++ [224, 0, 0, 0, 0, 0, 0, 0, 0, 0, 0, 0, 0, 0, 0, 0] ++ Rt.lit "164444555566667777" ++ Rt.lit "123456") := by
  decide +kernel

/-- … and the translated decoder (whole element decoder, translated `BitArray`) reads it back -/
example : (Src._dict_to_iso8583_loop textFieldEnc exMsg exCfg (encodeText exEnv) false).bind (fun out =>
    (Src._iso8583_to_dict bitmapReader (Src._iso8583_to_field_whole 100 (fun _ _ => .ok [])) out exCfg (decoderOf exEnv) false).bind
      (fun d => .ok (d.map (fun kv => (kv.1, match kv.2 with | .str t => t | _ => []))))) =
    .ok [(Rt.lit "MTI", Rt.lit "1144"), (Rt.lit "DE2", Rt.lit "4444555566667777"), (Rt.lit "DE3", Rt.lit "123456")] := by
  decide +kernel

end Cardutil.SrcTie
