import Cardutil.SrcTie.Base
import Cardutil.Gen.Src
import Cardutil.Model.Iso8583
import Cardutil.Props.C02
import Cardutil.Props.C07
/-
  Source tie for the element layout (C02): the translated `iso8583._get_field_length` and `_field_to_iso8583` —
  with `_pytype_to_string` and the text encoding as PARAMETERS (any functions of their types) — ARE the model's
  prefix width and the part of `Iso.encodeField` that follows the typed conversion: count prefix, refusal of
  values the prefix cannot count, left-justified blank padding / cutting of fixed text, bytes untouched.
-/
namespace Cardutil.SrcTie

open Cardutil Cardutil.Py Cardutil.Iso

def ftypeText : FType → Text
  | .fixed => [70, 73, 88, 69, 68]
  | .llvar => [76, 76, 86, 65, 82]
  | .lllvar => [76, 76, 76, 86, 65, 82]

/-- the configuration entry as the translated code sees it -/
def toRt (f : FieldCfg) : Rt.BitCfg := { field_type := ftypeText f.ftype, field_length := (f.length : Int) }

def ofSB : Rt.SB → Val
  | .str t => .str t
  | .bytes b => .bytes b

/-- what `Iso.encodeField` does with the result of the typed conversion -/
def encodeTail (env : Env) (f : FieldCfg) (s : Val) : Outcome Bytes :=
  match s with
  | .str t =>
    if f.prefixLen = 0 then encodeText env (fitLeft f.length t)
    else if 10 ^ f.prefixLen ≤ t.length then .dataError
    else
      (encodeText env (fmtInt f.prefixLen (Int.ofNat t.length))).bind (fun p =>
        (encodeText env t).bind (fun body => .ok (p ++ body)))
  | .bytes b =>
    if f.prefixLen = 0 then .ok (b.take f.length)
    else if 10 ^ f.prefixLen ≤ b.length then .dataError
    else (encodeText env (fmtInt f.prefixLen (Int.ofNat b.length))).bind (fun p => .ok (p ++ b))
  | _ => .escape .typeError

theorem encodeField_tail (env : Env) (f : FieldCfg) (v : Val) :
    encodeField env f v = (pyTypeToString env f v).bind (encodeTail env f) := by
  unfold encodeField
  congr 1

/-- `_get_field_length` -/
theorem get_field_length_eq (f : FieldCfg) : Src._get_field_length (toRt f) = (f.prefixLen : Int) := by
  unfold Src._get_field_length toRt FieldCfg.prefixLen
  cases f.ftype <;> rfl

theorem fmtLeft_take (L : Nat) (t : Text) :
    Rt.fmtLeft (L : Int) (Rt.slice t none (some (L : Int))) = fitLeft L t := by
  rw [slice_to _ _ (by omega)]
  simp [Rt.fmtLeft, fitLeft]

theorem fmtLeft_self (t : Text) :
    Rt.fmtLeft (t.length : Int) (Rt.slice t none (some (t.length : Int))) = t := by
  rw [fmtLeft_take]
  simp [fitLeft]

theorem slice_self (b : Bytes) : Rt.slice b none (some (b.length : Int)) = b := by
  rw [slice_to _ _ (by omega)]
  simp

theorem prefixLen_cases (f : FieldCfg) : f.prefixLen = 0 ∨ f.prefixLen = 2 ∨ f.prefixLen = 3 := by
  unfold FieldCfg.prefixLen
  cases f.ftype <;> simp

/-- the variable-length branch (a prefix of `p` digits, p = 2 or 3) -/
theorem var_case (env : Env) (f : FieldCfg) (s : Rt.SB) (p : Nat) (hp : f.prefixLen = p) (hpos : 0 < p) :
    (if decide (((f.prefixLen : Nat) : Int) > (0 : Int)) = true then
      (let field_length : Int := Rt.sbLen s
       if decide (field_length ≥ (10 : Int) ^ ((f.prefixLen : Nat) : Int).toNat) = true then Outcome.dataError
       else
        Outcome.bind (encodeText env (Rt.fmtIntW ((f.prefixLen : Nat) : Int).toNat field_length)) (fun t2 =>
          let output : Bytes := ([] ++ t2)
          match s with
          | Rt.SB.bytes field_value =>
            (let output : Bytes := (output ++ (Rt.slice field_value none (some field_length)))
             Outcome.ok output)
          | Rt.SB.str field_value =>
            (Outcome.bind (encodeText env (Rt.fmtLeft field_length (Rt.slice field_value none (some field_length))))
              (fun t3 => let output : Bytes := (output ++ t3); Outcome.ok output))))
    else
      (match s with
       | Rt.SB.bytes field_value =>
         (let output : Bytes := (([] : Bytes) ++ (Rt.slice field_value none (some ((f.length : Nat) : Int))))
          Outcome.ok output)
       | Rt.SB.str field_value =>
         (Outcome.bind (encodeText env (Rt.fmtLeft ((f.length : Nat) : Int) (Rt.slice field_value none (some ((f.length : Nat) : Int)))))
           (fun t4 => let output : Bytes := (([] : Bytes) ++ t4); Outcome.ok output)))) =
      encodeTail env f (ofSB s) := by
  have c : decide (((f.prefixLen : Nat) : Int) > (0 : Int)) = true := by simp [hp]; omega
  rw [if_pos c]
  have hne : ¬ (f.prefixLen = 0) := by omega
  dsimp only
  cases s with
  | str t =>
    by_cases hlen : 10 ^ f.prefixLen ≤ t.length
    · have c2 : decide (Rt.sbLen (Rt.SB.str t) ≥ (10 : Int) ^ ((f.prefixLen : Nat) : Int).toNat) = true := by
        apply decide_eq_true
        simp only [Rt.sbLen, Int.toNat_natCast]
        exact_mod_cast hlen
      rw [if_pos c2]
      simp only [ofSB, encodeTail, hne, if_false, if_pos hlen]
    · have c2 : ¬ (decide (Rt.sbLen (Rt.SB.str t) ≥ (10 : Int) ^ ((f.prefixLen : Nat) : Int).toNat) = true) := by
        intro hc
        have h1 := of_decide_eq_true hc
        simp only [Rt.sbLen, Int.toNat_natCast] at h1
        apply hlen
        exact_mod_cast h1
      rw [if_neg c2]
      simp only [ofSB, encodeTail, hne, if_false, if_neg hlen, Rt.sbLen, Int.toNat_natCast, List.nil_append, fmtLeft_self]
      rfl
  | bytes b =>
    by_cases hlen : 10 ^ f.prefixLen ≤ b.length
    · have c2 : decide (Rt.sbLen (Rt.SB.bytes b) ≥ (10 : Int) ^ ((f.prefixLen : Nat) : Int).toNat) = true := by
        apply decide_eq_true
        simp only [Rt.sbLen, Int.toNat_natCast]
        exact_mod_cast hlen
      rw [if_pos c2]
      simp only [ofSB, encodeTail, hne, if_false, if_pos hlen]
    · have c2 : ¬ (decide (Rt.sbLen (Rt.SB.bytes b) ≥ (10 : Int) ^ ((f.prefixLen : Nat) : Int).toNat) = true) := by
        intro hc
        have h1 := of_decide_eq_true hc
        simp only [Rt.sbLen, Int.toNat_natCast] at h1
        apply hlen
        exact_mod_cast h1
      rw [if_neg c2]
      simp only [ofSB, encodeTail, hne, if_false, if_neg hlen, Rt.sbLen, Int.toNat_natCast, List.nil_append, slice_self]
      rfl

/-- `_field_to_iso8583` after the typed conversion `ext`, for ANY conversion function and the codec's encoder -/
theorem field_to_iso_eq (env : Env) (f : FieldCfg) (ext : Rt.SB → Rt.BitCfg → Outcome Rt.SB) (x : Rt.SB) :
    Src._field_to_iso8583 ext (toRt f) x (encodeText env) =
      Outcome.bind (ext x (toRt f)) (fun s => encodeTail env f (ofSB s)) := by
  unfold Src._field_to_iso8583
  simp only [get_field_length_eq]
  congr 1
  funext s
  have hL : (toRt f).field_length = (f.length : Int) := rfl
  rw [hL]
  rcases prefixLen_cases f with h0 | h2 | h3
  · -- fixed width
    have c : ¬ (decide (((f.prefixLen : Nat) : Int) > (0 : Int)) = true) := by simp [h0]
    rw [if_neg c]
    cases s with
    | str t =>
      simp only [ofSB, encodeTail, h0, if_true, fmtLeft_take, List.nil_append, bind_ok_right]
    | bytes b =>
      simp only [ofSB, encodeTail, h0, if_true, List.nil_append]
      rw [slice_to _ _ (by omega)]
      simp
  · exact var_case env f s 2 h2 (by decide)
  · exact var_case env f s 3 h3 (by decide)

/-! ### C02 restated for the translated code -/

/-- an element without a typed conversion (`_pytype_to_string` returns its argument): the translated function IS the
    model's `encodeField` -/
theorem field_untyped_eq (env : Env) (f : FieldCfg) (x : Rt.SB) (hty : f.pytype = .str) :
    Src._field_to_iso8583 (fun v _ => .ok v) (toRt f) x (encodeText env) = encodeField env f (ofSB x) := by
  rw [field_to_iso_eq, encodeField_tail]
  simp only [pyTypeToString, hty]
  rfl

/-- C02(a) for the TRANSLATED `_field_to_iso8583`: whenever it returns for a text value, or for a bytes value in a
    variable-length element, the bytes are the documented rendering — exactly the width, left-justified and blank
    padded; or the 2- or 3-digit count followed by exactly that many bytes; bytes untouched -/
theorem C02_source_element_layout (env : Env) (f : FieldCfg) (x : Rt.SB) (bs : Bytes) (hty : f.pytype = .str)
    (hx : (∃ t, x = .str t) ∨ (∃ b, x = .bytes b ∧ 0 < f.prefixLen))
    (h : Src._field_to_iso8583 (fun v _ => .ok v) (toRt f) x (encodeText env) = .ok bs) :
    Props.C02.Rendered env f (ofSB x) bs := by
  rw [field_untyped_eq env f x hty] at h
  apply Props.C02.C02_element_layout env f (ofSB x) bs h (Or.inl hty)
  rcases hx with ⟨t, rfl⟩ | ⟨b, rfl, hp⟩
  · exact Or.inl ⟨t, rfl⟩
  · exact Or.inr (Or.inl ⟨b, rfl, hp⟩)

/-- C02(c) for the TRANSLATED function, whatever the typed conversion is: a value (text or bytes) longer than the
    2- or 3-digit prefix can count is refused with the library's data error, never emitted -/
theorem C02_source_refuses_overlong (env : Env) (f : FieldCfg) (ext : Rt.SB → Rt.BitCfg → Outcome Rt.SB)
    (x s : Rt.SB) (hext : ext x (toRt f) = .ok s) (hp : 0 < f.prefixLen)
    (hlen : (10 : Int) ^ f.prefixLen ≤ Rt.sbLen s) :
    Src._field_to_iso8583 ext (toRt f) x (encodeText env) = .dataError := by
  rw [field_to_iso_eq, hext, bind_ok_eq]
  have hne : ¬ (f.prefixLen = 0) := by omega
  cases s with
  | str t =>
    have : 10 ^ f.prefixLen ≤ t.length := by simp only [Rt.sbLen] at hlen; exact_mod_cast hlen
    simp only [ofSB, encodeTail, hne, if_false, if_pos this]
  | bytes b =>
    have : 10 ^ f.prefixLen ≤ b.length := by simp only [Rt.sbLen] at hlen; exact_mod_cast hlen
    simp only [ofSB, encodeTail, hne, if_false, if_pos this]

/-! ### the framing of one element on decode (C08) -/

/-- the codec's decoder as the translated code calls it: `bytes.decode(encoding)`, UnicodeDecodeError when a byte has
    no character -/
def decoderOf (env : Env) : Bytes → Outcome Text := fun b =>
  match env.codec.decode b with
  | some t => .ok t
  | none => .escape .unicodeError

/-- the first statements of `_iso8583_to_field` (up to `field_processor = …`): declared length, refusals, the slice —
    the element's bytes and the message increment -/
theorem field_frame_eq (env : Env) (f : FieldCfg) (data : Bytes) (hk : env.classes = Gen.intClasses) :
    Src._iso8583_to_field_frame (toRt f) data (decoderOf env) =
      Outcome.bind (fieldLength env f data) (fun flen =>
        .ok ((data.drop f.prefixLen).take flen, ((flen + f.prefixLen : Nat) : Int))) := by
  unfold Src._iso8583_to_field_frame
  simp only [get_field_length_eq]
  have hL : (toRt f).field_length = (f.length : Int) := rfl
  rw [hL]
  by_cases h0 : f.prefixLen = 0
  · have c : ¬ (decide (((f.prefixLen : Nat) : Int) > (0 : Int)) = true) := by simp [h0]
    rw [if_neg c]
    simp only [fieldLength, h0, if_true, bind_ok_eq]
    have hs := slice_nat data 0 (0 + f.length) (by omega)
    rw [Int.natCast_add] at hs
    rw [hs]
    simp
  · have c : decide (((f.prefixLen : Nat) : Int) > (0 : Int)) = true := by
      apply decide_eq_true; omega
    rw [if_pos c]
    simp only [fieldLength, h0, if_false]
    rw [slice_to _ _ (by omega)]
    simp only [Int.toNat_natCast, decoderOf]
    cases hd : env.codec.decode (data.take f.prefixLen) with
    | none => rfl
    | some t =>
      simp only [Rt.catchData, bind_ok_eq, Rt.intOfStr, ← hk]
      cases hi : pyInt env.classes t with
      | none => rfl
      | some i =>
        cases i with
        | negSucc n =>
          simp only [bind_ok_eq]
          have : decide (Int.negSucc n < (0 : Int)) = true := by apply decide_eq_true; omega
          rw [if_pos this]
          rfl
        | ofNat n =>
          simp only [bind_ok_eq]
          have : ¬ (decide (Int.ofNat n < (0 : Int)) = true) := by
            intro hc
            have h1 := of_decide_eq_true hc
            have h2 : (0 : Int) ≤ Int.ofNat n := Int.natCast_nonneg n
            omega
          rw [if_neg this]
          have hs := slice_nat data f.prefixLen (f.prefixLen + n) (by omega)
          simp only [Int.natCast_add] at hs
          have e : Int.ofNat n = (n : Int) := rfl
          rw [e, hs]
          simp only [Nat.add_sub_cancel_left, Int.natCast_add]

/-- C08 (framing) for the TRANSLATED code: whenever the framing statements return, the element's bytes are exactly the
    declared number of bytes right after the prefix and the message pointer moves forward by that number plus the
    prefix width — it never moves backwards and two elements never share bytes -/
theorem C08_source_frame (env : Env) (f : FieldCfg) (data raw : Bytes) (inc : Int) (hk : env.classes = Gen.intClasses)
    (h : Src._iso8583_to_field_frame (toRt f) data (decoderOf env) = .ok (raw, inc)) :
    ∃ n : Nat, fieldLength env f data = .ok n ∧ raw = (data.drop f.prefixLen).take n ∧
      inc = ((n + f.prefixLen : Nat) : Int) ∧ raw.length ≤ n := by
  rw [field_frame_eq env f data hk] at h
  cases hf : fieldLength env f data with
  | ok n =>
    rw [hf, bind_ok_eq] at h
    simp only [Outcome.ok.injEq, Prod.mk.injEq] at h
    refine ⟨n, rfl, h.1.symm, h.2.symm, ?_⟩
    rw [← h.1]
    simp [List.length_take]
    omega
  | dataError => rw [hf] at h; simp [Outcome.bind] at h
  | escape k => rw [hf] at h; simp [Outcome.bind] at h
  | diverge => rw [hf] at h; simp [Outcome.bind] at h

/-- … and a length prefix that `int()` reads as a negative number (b'-2', b'-07') is refused with the library's data
    error by the TRANSLATED code -/
theorem C08_source_negative_refused (env : Env) (f : FieldCfg) (data : Bytes) (t : Text) (n : Nat)
    (hk : env.classes = Gen.intClasses) (hp : 0 < f.prefixLen)
    (hd : env.codec.decode (data.take f.prefixLen) = some t) (hi : pyInt env.classes t = some (Int.negSucc n)) :
    Src._iso8583_to_field_frame (toRt f) data (decoderOf env) = .dataError := by
  rw [field_frame_eq env f data hk]
  have h0 : ¬ (f.prefixLen = 0) := by omega
  simp only [fieldLength, h0, if_false, hd, hi]
  rfl

/-! ### the typed conversion on decode (`_string_to_pytype`; C01, C07, C08) -/

def pytypeText : PyType → Text
  | .str => []
  | .int => [105, 110, 116]
  | .decimal => [100, 101, 99, 105, 109, 97, 108]
  | .datetime => [100, 97, 116, 101, 116, 105, 109, 101]

def dirText : Directive → Text
  | .y => [37, 121] | .Y => [37, 89] | .m => [37, 109] | .d => [37, 100]
  | .H => [37, 72] | .M => [37, 77] | .S => [37, 83]
  | .lit c => [c]

/-- the format string of a directive list -/
def fmtText (ds : List Directive) : Text := ds.flatMap dirText

/-- the configuration entry with its type and date format, as the translated `_string_to_pytype` sees it -/
def toRtTyped (f : FieldCfg) : Rt.BitCfg :=
  { field_type := ftypeText f.ftype, field_length := (f.length : Int),
    field_python_type := pytypeText f.pytype, field_date_format := some (fmtText f.dateFmt) }

def valOfPy : Rt.PyVal → Val
  | .str t => .str t
  | .int i => .int i
  | .dec d => .dec d
  | .dt d => .dt d
  | .bytes b => .bytes b

/-- no literal '%' in the format (a '%' starts a directive) -/
def NoPercent (ds : List Directive) : Prop := ∀ c, Directive.lit c ∈ ds → c ≠ 37

theorem parseFormat_fmtText : ∀ (ds : List Directive), NoPercent ds → Rt.parseFormat (fmtText ds) = some ds := by
  intro ds
  induction ds with
  | nil => intro _; rfl
  | cons D ds ih =>
    intro h
    have ih' := ih (fun c hc => h c (by simp [hc]))
    cases D with
    | lit c =>
      have hc : c ≠ 37 := h c (by simp)
      simp only [fmtText, List.flatMap_cons, dirText, List.singleton_append] at ih' ⊢
      unfold Rt.parseFormat
      split
      · rename_i heq; simp at heq
      · rename_i c' rest heq
        simp only [List.cons.injEq] at heq
        exact absurd heq.1 hc
      · rename_i c' rest hne heq
        simp only [List.cons.injEq] at heq
        obtain ⟨rfl, rfl⟩ := heq
        rw [ih']; rfl
    | _ =>
      simp only [fmtText, List.flatMap_cons, dirText, List.cons_append, List.nil_append] at ih' ⊢
      simp only [Rt.parseFormat, ih']
      rfl

/-- `_string_to_pytype`: the translation IS the model's typed conversion (values rendered into the model's `Val`) -/
theorem string_to_pytype_eq (env : Env) (f : FieldCfg) (t : Text) (hk : env.classes = Gen.intClasses)
    (hfmt : NoPercent f.dateFmt) :
    Outcome.bind (Src._string_to_pytype t (toRtTyped f)) (fun v => .ok (valOfPy v)) = stringToPyType env f t := by
  obtain ⟨ft, len, proc, pyt, dfmt⟩ := f
  have hpf := parseFormat_fmtText dfmt hfmt
  cases pyt with
  | str => rfl
  | int =>
    have e : Src._string_to_pytype t (toRtTyped ⟨ft, len, proc, .int, dfmt⟩) =
        Outcome.bind (Rt.intOfStr Gen.intClasses t) (fun i => .ok (Rt.PyVal.int i)) := rfl
    rw [e]
    simp only [stringToPyType, Rt.intOfStr, ← hk]
    cases pyInt env.classes t <;> rfl
  | decimal =>
    have e : Src._string_to_pytype t (toRtTyped ⟨ft, len, proc, .decimal, dfmt⟩) =
        Outcome.bind (Rt.decimalOfStr Gen.intClasses t) (fun d => .ok (Rt.PyVal.dec d)) := rfl
    rw [e]
    simp only [stringToPyType, Rt.decimalOfStr, ← hk]
    cases pyDecimal env.classes t <;> rfl
  | datetime =>
    have e : Src._string_to_pytype t (toRtTyped ⟨ft, len, proc, .datetime, dfmt⟩) =
        Outcome.bind (Rt.strptimeText Gen.intClasses t (fmtText dfmt)) (fun d => .ok (Rt.PyVal.dt d)) := rfl
    rw [e]
    simp only [stringToPyType, Rt.strptimeText, hpf, ← hk]
    cases strptime env.classes dfmt t <;> rfl

/-- C07 for the TRANSLATED typed conversion under the caller's handler (`except (ValueError, decimal.InvalidOperation)`
    → the library error): for every text, every configured type and every date format it gives a value or the library's
    data error — nothing else escapes and nothing diverges -/
theorem C07_source_typed_conversion (env : Env) (f : FieldCfg) (t : Text) (hk : env.classes = Gen.intClasses)
    (hfmt : NoPercent f.dateFmt) :
    (∃ v, (Outcome.bind (Src._string_to_pytype t (toRtTyped f)) (fun v => .ok (valOfPy v))).catchAs isConvError = .ok v) ∨
      (Outcome.bind (Src._string_to_pytype t (toRtTyped f)) (fun v => .ok (valOfPy v))).catchAs isConvError = .dataError := by
  rw [string_to_pytype_eq env f t hk hfmt]
  exact Props.C07.C07_typed_conversion env f t

end Cardutil.SrcTie
