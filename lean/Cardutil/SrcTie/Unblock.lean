import Cardutil.SrcTie.Block
import Cardutil.Model.Vbs
import Cardutil.Props.C05
/-
  Source tie for `mciipm.Unblock1014.read` (C05).  `self` is made explicit as (`buffer`, the bytes
  of the wrapped file not yet read); `self.file_obj.read(1014)` takes the next 1014 of those.  The
  translated method IS the model's `Unblock.read`.
-/
namespace Cardutil.SrcTie

open Cardutil Cardutil.Py

def needOf (n : Nat) : Option Nat := if n = 0 then none else some n

def uCond (n : Int) (st : Bytes × Bytes) : Bool :=
  (if (!(n != (0 : Int))) then true else false) || decide (Rt.len st.2 ≤ n)

def uBody (st : Bytes × Bytes) : Outcome (Bool × (Bytes × Bytes)) :=
  if (!(!(Rt.slice st.1 none (some (1014 : Int))).isEmpty)) then
    .ok (false, (Rt.slice st.1 (some (1014 : Int)) none, st.2))
  else .ok (true, (Rt.slice st.1 (some (1014 : Int)) none,
                   st.2 ++ Rt.slice (Rt.slice st.1 none (some (1014 : Int))) none (some (1012 : Int))))

theorem unblock_read_unfold (fuel : Nat) (buf rest : Bytes) (n : Int) :
    Src.Unblock1014_read fuel buf rest n =
      (Rt.whileO fuel (uCond n) uBody (rest, buf)).bind (fun st =>
        if (if (!(n != (0 : Int))) then true else false) then .ok (st.2, ([], st.1))
        else .ok (Rt.slice st.2 none (some n), (Rt.slice st.2 (some n) none, st.1))) := rfl

theorem uCond_eq (n : Nat) (rest buf : Bytes) : uCond (n : Int) (rest, buf) = Unblock.wants (needOf n) buf := by
  unfold uCond needOf Unblock.wants Rt.len
  by_cases h : n = 0
  · subst h; simp
  · have : ((n : Int) != 0) = true := by simp; omega
    simp only [this, Bool.not_true, Bool.false_eq_true, if_false, Bool.false_or, h]
    by_cases hb : buf.length ≤ n
    · have : ((buf.length : Int) ≤ (n : Int)) := by omega
      simp [hb, this]
    · have : ¬ ((buf.length : Int) ≤ (n : Int)) := by omega
      simp [hb, this]

theorem refill_loop (n : Nat) : ∀ (fuel : Nat) (rest buf : Bytes), rest.length < fuel →
    Rt.whileO fuel (uCond (n : Int)) uBody (rest, buf) = .ok (Unblock.refill 1012 (needOf n) rest buf) := by
  intro fuel
  induction fuel with
  | zero => intro rest buf h; omega
  | succ fuel ih =>
    intro rest buf hf
    rw [Rt.whileO, Unblock.refill, uCond_eq]
    by_cases hw : Unblock.wants (needOf n) buf = true
    · rw [if_pos hw]
      have hbody : uBody (rest, buf) =
          if rest.length = 0 then .ok (false, ([], buf))
          else .ok (true, (rest.drop (1012 + 2), buf ++ (rest.take (1012 + 2)).take 1012)) := by
        unfold uBody
        simp only [slice_to _ _ (show (0 : Int) ≤ 1014 by decide), slice_from _ _ (show (0 : Int) ≤ 1014 by decide),
          slice_to _ _ (show (0 : Int) ≤ 1012 by decide)]
        have e1 : (1014 : Int).toNat = 1012 + 2 := rfl
        have e2 : (1012 : Int).toNat = 1012 := rfl
        rw [e1, e2]
        cases rest with
        | nil => simp
        | cons a as => simp
      rw [hbody]
      by_cases hr : rest.length = 0
      · have : rest = [] := List.eq_nil_of_length_eq_zero hr
        subst this
        simp [Outcome.bind]
      · rw [if_neg hr]
        simp only [Outcome.bind, if_true]
        rw [ih _ _ (by simp [List.length_drop]; omega)]
        have : (Unblock.wants (needOf n) buf = true ∧ rest.length ≠ 0) := ⟨hw, hr⟩
        rw [if_pos this]
    · have hw' : Unblock.wants (needOf n) buf = false := by simpa using hw
      rw [hw']
      have : ¬ (false = true ∧ rest.length ≠ 0) := by simp
      simp

/-- `Unblock1014.read(n)` for `n ≥ 0` (`0` = no size): output, new buffer and the unread rest of the
    wrapped file are the model's -/
theorem unblock_read_eq (fuel : Nat) (buf rest : Bytes) (n : Nat) (hf : rest.length < fuel) :
    Src.Unblock1014_read fuel buf rest (n : Int) =
      .ok ((Unblock.read 1012 ⟨rest, buf⟩ (needOf n)).1,
           ((Unblock.read 1012 ⟨rest, buf⟩ (needOf n)).2.buf, (Unblock.read 1012 ⟨rest, buf⟩ (needOf n)).2.rest)) := by
  rw [unblock_read_unfold, refill_loop n fuel rest buf hf]
  simp only [Outcome.bind, Unblock.read]
  by_cases h : n = 0
  · subst h
    simp [needOf]
  · have hne : ((n : Int) != 0) = true := by simp; omega
    simp only [hne, Bool.not_true, Bool.false_eq_true, if_false, needOf, h]
    rw [slice_to _ _ (by omega), slice_from _ _ (by omega)]
    have : ((n : Int)).toNat = n := by omega
    rw [this]

/-! ### a whole history of translated reads -/

/-- successive translated `read(n)` calls on one unblocker: the outputs in order -/
def srcReads (fuel : Nat) : Bytes × Bytes → List Nat → Outcome (List Bytes)
  | _, [] => .ok []
  | st, n :: ns =>
    (Src.Unblock1014_read fuel st.1 st.2 (n : Int)).bind (fun r =>
      (srcReads fuel r.2 ns).bind (fun outs => .ok (r.1 :: outs)))

theorem refill_rest_le (P : Nat) (need : Option Nat) (rest buf : Bytes) :
    (Unblock.refill P need rest buf).1.length ≤ rest.length := by
  induction rest, buf using Unblock.refill.induct (P := P) (need := need) with
  | case1 rest buf h ih =>
    rw [Unblock.refill, if_pos h]
    have := ih
    simp only [List.length_drop] at this
    omega
  | case2 rest buf h =>
    rw [Unblock.refill, if_neg h]
    exact Nat.le_refl _

theorem src_reads_eq (fuel : Nat) (ns : List Nat) : ∀ (buf rest : Bytes), rest.length < fuel →
    srcReads fuel (buf, rest) ns = .ok (Unblock.runReads 1012 ⟨rest, buf⟩ (ns.map needOf)) := by
  induction ns with
  | nil => intro buf rest _; rfl
  | cons n ns ih =>
    intro buf rest hf
    simp only [srcReads, List.map_cons, Unblock.runReads]
    rw [unblock_read_eq fuel buf rest n hf]
    simp only [Outcome.bind]
    have hle : (Unblock.read 1012 ⟨rest, buf⟩ (needOf n)).2.rest.length ≤ rest.length := by
      unfold Unblock.read
      cases needOf n <;> exact refill_rest_le _ _ _ _
    rw [ih _ _ (by omega)]

/-- C05 for the code as translated: every history of translated `read` calls (sizes ≥ 0, `0` = no
    size) on a fresh unblocker over ANY file returns the successive slices of the payload stream -/
theorem C05_source (fuel : Nat) (file : Bytes) (ns : List Nat) (hf : file.length < fuel) :
    srcReads fuel ([], file) ns =
      .ok (Unblock.specReads (Block.payloads 1012 file) (ns.map needOf)) := by
  rw [src_reads_eq fuel ns [] file hf, Props.C05.C05_reads]

end Cardutil.SrcTie
