import Cardutil.SrcTie.Pin
import Cardutil.SrcTie.Misc
import Cardutil.Props.C14
import Cardutil.Props.C13
import Cardutil.Lemmas.Aes
/-
  Source tie for the WHOLE functions around the cipher library (C14): `key.calculate_kcv`, `key.encrypt_key`,
  `key.get_zone_master_key`, `key.get_enc_zone_master_key` and `pinblock.calculate_pvv`.  The three statements of an
  ECB call into `cryptography` are one call of an external function `E key data` in the translation; the theorems are
  stated for ANY such function and then instantiated with the Triple DES of Model/Des.lean (`Des.tdesEcb false`).
-/
namespace Cardutil.SrcTie

open Cardutil Cardutil.Py Cardutil.Digits

abbrev CipherFn := Bytes → Bytes → Outcome Bytes

theorem zeros16 : Rt.mulSeq [0] (16 : Int) = List.replicate 16 0 := by rw [mulSeq_single]; rfl

/-- `calculate_kcv`: the leading `n` hex digits of whatever the cipher returns for sixteen zero bytes -/
theorem calculate_kcv_eq (E : CipherFn) (key ct : Bytes) (n : Nat) (hE : E key (List.replicate 16 0) = .ok ct)
    (hb : IsBytes ct) :
    Src.calculate_kcv E key (n : Int) = .ok (((Pin.bytesToNibbles ct).map Pin.hexChar).take n) := by
  unfold Src.calculate_kcv
  rw [zeros16, hE, bind_ok_eq]
  simp only [hexlify_eq ct hb]
  rw [slice_0_to _ _ (Int.natCast_nonneg n)]
  simp

/-- … a cipher failure (wrong key size) is that failure -/
theorem calculate_kcv_err (E : CipherFn) (key : Bytes) (n : Int) (k : ExcKind) (hE : E key (List.replicate 16 0) = .escape k) :
    Src.calculate_kcv E key n = .escape k := by
  unfold Src.calculate_kcv
  rw [zeros16, hE]
  rfl

/-- `encrypt_key`: both arguments read as hex, then the cipher -/
theorem encrypt_key_eq (E : CipherFn) (keyHex mkHex : Text) :
    Src.encrypt_key E keyHex mkHex =
      Outcome.bind (Pin.unhexlify mkHex) (fun mk => Outcome.bind (Pin.unhexlify keyHex) (fun k => E mk k)) := by
  unfold Src.encrypt_key Rt.unhexlify
  simp only [bind_ok_right]

/-- `get_zone_master_key`: the model's `combine`, then the check value of the combined key -/
theorem get_zone_master_key_eq (E : CipherFn) (parts : List Text) :
    Src.get_zone_master_key E parts =
      Outcome.bind (Pin.combine parts) (fun p1 =>
        Outcome.bind (Pin.unhexlify p1) (fun bk =>
          Outcome.bind (Src.calculate_kcv E bk 6) (fun kcv => .ok (p1, kcv)))) := by
  have hc := combine_eq parts
  unfold Src.get_zone_master_key_combine at hc
  unfold Src.get_zone_master_key
  simp only [bind_ok_right] at hc
  simp only [Rt.unhexlify]
  rw [hc]

/-- `get_enc_zone_master_key`: the combined key encrypted under the master key, with the clear key's check value -/
theorem get_enc_zone_master_key_eq (E : CipherFn) (mk : Text) (parts : List Text) :
    Src.get_enc_zone_master_key E mk parts =
      Outcome.bind (Src.get_zone_master_key E parts) (fun r =>
        Outcome.bind (Src.encrypt_key E r.1 mk) (fun enc => .ok (Rt.hexlify enc, r.2))) := rfl

/-- `calculate_pvv`: TSP, the cipher, the translated decimalisation -/
theorem calculate_pvv_unfold (E : CipherFn) (pin key : Text) (idx : Int) (pan : Text) :
    Src.calculate_pvv E pin key idx pan =
      Outcome.bind (Pin.unhexlify key) (fun k =>
        Outcome.bind (Pin.unhexlify (Pin.tsp pan (Rt.strOfInt idx) pin)) (fun blk =>
          Outcome.bind (E k blk) (fun ct => Src.calculate_pvv_decimalise ct))) := by
  unfold Src.calculate_pvv Src.calculate_pvv_decimalise Rt.unhexlify
  rw [get_tsp_eq]

/-- `calculate_pvv` as translated, for any cipher that returns bytes: the Visa PVV of the model -/
theorem calculate_pvv_eq (E : CipherFn) (pin key : Text) (idx : Int) (pan : Text) (k blk ct : Bytes)
    (hk : Pin.unhexlify key = .ok k) (hblk : Pin.unhexlify (Pin.tsp pan (Rt.strOfInt idx) pin) = .ok blk)
    (hE : E k blk = .ok ct) (hb : IsBytes ct) :
    Src.calculate_pvv E pin key idx pan = .ok (Pin.decimalise (Pin.bytesToNibbles ct)) := by
  rw [calculate_pvv_unfold, hk, bind_ok_eq, hblk, bind_ok_eq, hE, bind_ok_eq, decimalise_eq ct hb]

/-! ### with the Triple DES of the model as the cipher -/

theorem nibblesToBytes_length : ∀ (l : List Nat), (Pin.nibblesToBytes l).length = l.length / 2
  | [] => rfl
  | [_] => by simp [Pin.nibblesToBytes]
  | a :: b :: rest => by
    simp only [Pin.nibblesToBytes, List.length_cons, nibblesToBytes_length rest]
    omega

/-- the external cipher function, instantiated: Triple DES ECB encryption of Model/Des.lean -/
def tdesE : CipherFn := fun key data => Des.tdesEcb false key data

theorem tdesFn_of_ok (key data ct : Bytes) (h : Des.tdesEcb false key data = .ok ct) : Des.tdesFn key data = ct := by
  unfold Des.tdesFn; rw [h]

/-- C14, key check value, for `calculate_kcv` as written with the model's Triple DES behind the cipher call: for every
    key of 8, 16 or 24 bytes the result is the leading `n` hex digits of the encryption of sixteen zero bytes -/
theorem C14_source_kcv (key : Bytes) (hk : key.length = 8 ∨ key.length = 16 ∨ key.length = 24) (n : Nat) :
    Src.calculate_kcv tdesE key (n : Int) = .ok (Pin.kcv (Des.tdesFn key) n) := by
  obtain ⟨ct, hct, _⟩ := Props.C13.tdes_encrypts key (List.replicate 16 0) hk (by decide)
  have hb : IsBytes ct := Des.tdesEcb_isBytes false key _ ct hct
  rw [calculate_kcv_eq tdesE key ct n hct hb, Props.C14.C14_kcv, tdesFn_of_ok key _ ct hct]

/-- C14, PVV, for `calculate_pvv` as written with the model's Triple DES behind the cipher call: for every PVV key of
    8, 16 or 24 bytes (given as hex text), PIN of at least four digits, PAN of at least twelve digits and key index 0..9,
    the function returns exactly four decimal digits: the model's Visa PVV -/
theorem C14_source_pvv (keyHex : Text) (key : Bytes) (hkey : Pin.unhexlify keyHex = .ok key)
    (hk : key.length = 8 ∨ key.length = 16 ∨ key.length = 24)
    (pan pin : Text) (idx : Nat) (hidx : idx < 10) (hpan : Pin.AllDigits pan) (hpin : Pin.AllDigits pin)
    (hl : 12 ≤ pan.length) (hp : 4 ≤ pin.length) :
    ∃ v, Src.calculate_pvv tdesE pin keyHex (idx : Int) pan = .ok v ∧ v.length = 4 ∧ Pin.AllDigits v ∧
      Pin.pvv (Des.tdesFn key) pin (Rt.strOfInt (idx : Int)) pan = .ok v := by
  have hidxText : Rt.strOfInt ((idx : Nat) : Int) = [48 + idx] := by
    have : ∀ i, i < 10 → Rt.strOfInt ((i : Nat) : Int) = [48 + i] := by decide +kernel
    exact this idx hidx
  have hid : Pin.AllDigits (Rt.strOfInt ((idx : Nat) : Int)) := by
    rw [hidxText]; intro c hc; simp at hc; omega
  have hil : (Rt.strOfInt ((idx : Nat) : Int)).length = 1 := by rw [hidxText]; rfl
  obtain ⟨v, hv, hvl, hvd⟩ := Props.C14.C14_pvv_tdes key hk pan (Rt.strOfInt (idx : Int)) pin hpan hid hpin hl hil hp
  refine ⟨v, ?_, hvl, hvd, hv⟩
  -- unfold the model's pvv to find the block and the ciphertext
  unfold Pin.pvv at hv
  cases hblk : Pin.unhexlify (Pin.tsp pan (Rt.strOfInt (idx : Int)) pin) with
  | ok blk =>
    rw [hblk] at hv
    simp only [bind, Outcome.bind] at hv
    obtain ⟨blk', hbl8, _⟩ := Props.C14.C14_pvv_defined (Des.tdesFn key) pan (Rt.strOfInt (idx : Int)) pin hpan hid hpin hl hil hp
    have hlen : blk.length % 8 = 0 := by
      -- the TSP is sixteen hex digits
      have ht := Props.C14.C14_tsp_length pan (Rt.strOfInt (idx : Int)) pin hl hil hp
      have := hblk
      unfold Pin.unhexlify at this
      split at this
      · rename_i ns hns
        split at this
        · injection this with this
          have hnl : ns.length = 16 := by
            have := (parseHexText_spec _ ns hns).1
            omega
          rw [← this]
          rw [nibblesToBytes_length, hnl]
        · cases this
      · cases this
    obtain ⟨ct, hct, _⟩ := Props.C13.tdes_encrypts key blk hk hlen
    have hb : IsBytes ct := Des.tdesEcb_isBytes false key _ ct hct
    rw [calculate_pvv_eq tdesE pin keyHex (idx : Int) pan key blk ct hkey hblk hct hb]
    rw [tdesFn_of_ok key blk ct hct] at hv
    exact hv
  | dataError => rw [hblk] at hv; simp [bind, Outcome.bind] at hv
  | escape k => rw [hblk] at hv; simp [bind, Outcome.bind] at hv
  | diverge => rw [hblk] at hv; simp [bind, Outcome.bind] at hv

/-- C14, zone master key, for `get_zone_master_key` as written with the model's Triple DES behind the cipher call:
    components of L = 32 or 48 hex digits give the L-digit text of their XOR (independent of their order; a component
    given twice cancels — `C14_combine_order`, `C14_combine_cancel`) together with the six leading hex digits of the
    encryption of zeros under that key -/
theorem C14_source_zone_master_key (L : Nat) (hL : L = 32 ∨ L = 48) (parts : List (List Nat))
    (h : ∀ p ∈ parts, p.length = L ∧ ∀ n ∈ p, n < 16) (hne : parts ≠ [] ∨ L = 32) :
    let clear := toDigits 16 L (Pin.combineVal (parts.map (fromDigits 16)))
    Src.get_zone_master_key tdesE (parts.map (·.map Pin.hexChar)) =
      .ok (clear.map Pin.hexChar, Pin.kcv (Des.tdesFn (Pin.nibblesToBytes clear)) 6) := by
  intro clear
  show Src.get_zone_master_key tdesE (parts.map (·.map Pin.hexChar)) =
      .ok (clear.map Pin.hexChar, Pin.kcv (Des.tdesFn (Pin.nibblesToBytes clear)) 6)
  have hL32 : 32 ≤ L := by omega
  rw [get_zone_master_key_eq, Props.C14.C14_combine_text_w L hL32 parts h hne, bind_ok_eq]
  change Outcome.bind (Pin.unhexlify (clear.map Pin.hexChar)) (fun bk =>
      Outcome.bind (Src.calculate_kcv tdesE bk 6) (fun kcv => .ok (clear.map Pin.hexChar, kcv))) = _
  have hlt : ∀ n ∈ clear, n < 16 := toDigits_lt (by decide) L _
  have hlen : clear.length = L := by simp [clear]
  have hun : Pin.unhexlify (clear.map Pin.hexChar) = .ok (Pin.nibblesToBytes clear) := by
    unfold Pin.unhexlify
    rw [Pin.parseHexText_hexChars clear hlt]
    have : clear.length % 2 = 0 := by omega
    simp [this]
  rw [hun, bind_ok_eq]
  have hkl : (Pin.nibblesToBytes clear).length = 16 ∨ (Pin.nibblesToBytes clear).length = 24 := by
    rw [nibblesToBytes_length, hlen]; omega
  have hk : (Pin.nibblesToBytes clear).length = 8 ∨ (Pin.nibblesToBytes clear).length = 16 ∨
      (Pin.nibblesToBytes clear).length = 24 := Or.inr hkl
  have := C14_source_kcv (Pin.nibblesToBytes clear) hk 6
  rw [show ((6 : Nat) : Int) = (6 : Int) from rfl] at this
  rw [this, bind_ok_eq]

/-! ### the static `encrypt` / `decrypt` methods of the two encryption mix-ins (C13) -/

def tdesD : CipherFn := fun key data => Des.tdesEcb true key data

/-- AES-ECB of the model as the external cipher functions -/
def aesE : CipherFn := fun key data =>
  match Aes.ecbEncrypt key data with
  | some c => .ok c
  | none => .escape .valueError
def aesD : CipherFn := fun key data =>
  match Aes.ecbDecrypt key data with
  | some c => .ok c
  | none => .escape .valueError

theorem tdes_encrypt_eq (E : CipherFn) (keyHex : Text) (data : Bytes) :
    Src.Tdes_encrypt E keyHex data = Outcome.bind (Pin.unhexlify keyHex) (fun k => E k data) := by
  unfold Src.Tdes_encrypt Rt.unhexlify; simp only [bind_ok_right]
theorem tdes_decrypt_eq (D : CipherFn) (keyHex : Text) (data : Bytes) :
    Src.Tdes_decrypt D keyHex data = Outcome.bind (Pin.unhexlify keyHex) (fun k => D k data) := by
  unfold Src.Tdes_decrypt Rt.unhexlify; simp only [bind_ok_right]
theorem aes_encrypt_eq (E : CipherFn) (keyHex : Text) (data : Bytes) :
    Src.Aes_encrypt E keyHex data = Outcome.bind (Pin.unhexlify keyHex) (fun k => E k data) := by
  unfold Src.Aes_encrypt Rt.unhexlify; simp only [bind_ok_right]
theorem aes_decrypt_eq (D : CipherFn) (keyHex : Text) (data : Bytes) :
    Src.Aes_decrypt D keyHex data = Outcome.bind (Pin.unhexlify keyHex) (fun k => D k data) := by
  unfold Src.Aes_decrypt Rt.unhexlify; simp only [bind_ok_right]

/-- C13, encrypted forms, for the Triple DES mix-in's static methods as written (the model's Triple DES behind the
    cipher calls): for every hex key of 8, 16 or 24 bytes and every byte string of whole 8-byte blocks, `encrypt` returns
    a ciphertext of the same length that `decrypt` under the same key turns back into the data -/
theorem C13_source_tdes_roundtrip (keyHex : Text) (key : Bytes) (hkey : Pin.unhexlify keyHex = .ok key)
    (hk : key.length = 8 ∨ key.length = 16 ∨ key.length = 24) (data : Bytes) (hd : data.length % 8 = 0)
    (hb : IsBytes data) :
    ∃ ct, Src.Tdes_encrypt tdesE keyHex data = .ok ct ∧ ct.length = data.length ∧
      Src.Tdes_decrypt tdesD keyHex ct = .ok data := by
  obtain ⟨ct, hct, hl⟩ := Props.C13.tdes_encrypts key data hk hd
  refine ⟨ct, ?_, hl, ?_⟩
  · rw [tdes_encrypt_eq, hkey, bind_ok_eq]; exact hct
  · rw [tdes_decrypt_eq, hkey, bind_ok_eq]; exact Des.tdesEcb_dec_enc key data ct hb hct

theorem ecbEncrypt_one (key x : Bytes) (hx : x.length = 16) : Aes.ecbEncrypt key x = Aes.encryptBlock key x := by
  unfold Aes.ecbEncrypt
  have h0 : ¬ (x.length % 16 ≠ 0) := by omega
  rw [if_neg h0, hx]
  have hb : Aes.blocks 16 x = [x] := by
    match x, hx with
    | a :: rest, _ =>
      simp only [Aes.blocks]
      have ht : List.take 16 (a :: rest) = a :: rest := List.take_of_length_le (by omega)
      have hdr : List.drop 16 (a :: rest) = [] := List.drop_of_length_le (by omega)
      rw [ht, hdr]
      rfl
  rw [hb]
  simp only [List.foldr_cons, List.foldr_nil]
  cases Aes.encryptBlock key x <;> simp

theorem ecbDecrypt_one (key x : Bytes) (hx : x.length = 16) : Aes.ecbDecrypt key x = Aes.decryptBlock key x := by
  unfold Aes.ecbDecrypt
  have h0 : ¬ (x.length % 16 ≠ 0) := by omega
  rw [if_neg h0, hx]
  have hb : Aes.blocks 16 x = [x] := by
    match x, hx with
    | a :: rest, _ =>
      simp only [Aes.blocks]
      have ht : List.take 16 (a :: rest) = a :: rest := List.take_of_length_le (by omega)
      have hdr : List.drop 16 (a :: rest) = [] := List.drop_of_length_le (by omega)
      rw [ht, hdr]
      rfl
  rw [hb]
  simp only [List.foldr_cons, List.foldr_nil]
  cases Aes.decryptBlock key x <;> simp

/-- … and for the AES mix-in's static methods as written (the model's AES behind the cipher calls): for every hex key of
    16, 24 or 32 bytes and every 16-byte block (a format-4 PIN block is one) -/
theorem C13_source_aes_roundtrip (keyHex : Text) (key : Bytes) (hkey : Pin.unhexlify keyHex = .ok key)
    (hk : key.length = 16 ∨ key.length = 24 ∨ key.length = 32) (data : Bytes) (hs : Aes.IsState data) :
    ∃ ct, Src.Aes_encrypt aesE keyHex data = .ok ct ∧ ct.length = 16 ∧
      Src.Aes_decrypt aesD keyHex ct = .ok data := by
  obtain ⟨ct, hct⟩ := Props.C13.aes_encrypts key data hk
  obtain ⟨hdec, hcs⟩ := Aes.decryptBlock_encryptBlock key data ct hs hct
  refine ⟨ct, ?_, hcs.1, ?_⟩
  · rw [aes_encrypt_eq, hkey, bind_ok_eq]
    unfold aesE
    rw [ecbEncrypt_one key data hs.1, hct]
  · rw [aes_decrypt_eq, hkey, bind_ok_eq]
    unfold aesD
    rw [ecbDecrypt_one key ct hcs.1, hdec]

end Cardutil.SrcTie
