import Cardutil.SrcTie.Writer
import Cardutil.SrcTie.Reader
/-
  The translated writer and the translated reader together (C03, unblocked): records written with
  the translated `VbsWriter.write`, finalised with the translated `close`, and read back by
  iterating the translated `VbsReader.__next__` come back unchanged, in order, then end of data.
  Nothing in this statement mentions the hand-written models: they are only the bridge of the proof.
-/
namespace Cardutil.SrcTie

open Cardutil Cardutil.Py Cardutil.Vbs

/-- `for r in recs: writer.write(r)` with the translated method -/
def srcWriteAll : Bool × (Bytes × Int) → List Bytes → Outcome (Bool × (Bytes × Int))
  | st, [] => .ok st
  | st, r :: rs => (Src.VbsWriter_write st.1 st.2.1 st.2.2 r).bind (fun st' => srcWriteAll st' rs)

theorem rawWrite_blocked (P : Nat) (s : Writer.St) (b : Bytes) : (Writer.rawWrite P s b).blocked = s.blocked := by
  unfold Writer.rawWrite
  split <;> rfl

theorem write_blocked (P : Nat) (s : Writer.St) (r : Bytes) : (Writer.write P s r).blocked = s.blocked := by
  unfold Writer.write
  rw [rawWrite_blocked, rawWrite_blocked]

theorem write_keeps_unblocked (s : Writer.St) (hb : s.blocked = false) (r : Bytes) :
    (Writer.write 1012 s r).blocked = false := by
  rw [write_blocked]; exact hb

theorem srcWriteAll_cons (s : Writer.St) (r : Bytes) (rs : List Bytes) :
    srcWriteAll (wstate s) (r :: rs) =
      (Src.VbsWriter_write s.closed s.file.data (s.file.pos : Int) r).bind (fun st' => srcWriteAll st' rs) := rfl

theorem src_write_all_eq (recs : List Bytes) (hr : ∀ r ∈ recs, r.length < 4294967296) :
    ∀ (s : Writer.St), s.blocked = false →
      srcWriteAll (wstate s) recs = .ok (wstate (recs.foldl (Writer.write 1012) s)) := by
  induction recs with
  | nil => intro s _; rfl
  | cons r rs ih =>
    intro s hb
    rw [srcWriteAll_cons, writer_write_eq s hb r (hr r (by simp))]
    show srcWriteAll (wstate (Writer.write 1012 s r)) rs = _
    rw [ih (fun x hx => hr x (by simp [hx])) _ (write_keeps_unblocked s hb r)]
    rfl

/-- C03 for the code as translated, writer AND reader: write the records, close, read back -/
theorem C03_source_roundtrip (recs : List Bytes) (hmax : Gen.maxVbsRecordLength < 4294967296)
    (h : ∀ r ∈ recs, 0 < r.length ∧ r.length ≤ Gen.maxVbsRecordLength) :
    ∃ st1 st2, srcWriteAll (false, ([], (0 : Int))) recs = .ok st1 ∧
      Src.VbsWriter_close st1.1 st1.2.1 st1.2.2 = .ok st2 ∧
      srcReadAll (st2.2.1.length + 1) ((1 : Int), ([], st2.2.1)) = (recs, .eof) := by
  have hinit : wstate (Writer.init 1012 false) = (false, ([], (0 : Int))) := rfl
  have hb0 : (Writer.init 1012 false).blocked = false := rfl
  have hw := src_write_all_eq recs (fun r hr => by have := (h r hr).2; omega) (Writer.init 1012 false) hb0
  rw [hinit] at hw
  have hbl : (recs.foldl (Writer.write 1012) (Writer.init 1012 false)).blocked = false := by
    have : ∀ (rs : List Bytes) (s : Writer.St), s.blocked = false → (rs.foldl (Writer.write 1012) s).blocked = false := by
      intro rs
      induction rs with
      | nil => intro s hs; exact hs
      | cons r rs ih => intro s hs; exact ih _ (write_keeps_unblocked s hs r)
    exact this recs _ hb0
  have hc := writer_close_eq (recs.foldl (Writer.write 1012) (Writer.init 1012 false)) hbl
  refine ⟨_, _, hw, hc, ?_⟩
  have hfile : (wstate (Writer.close 1012 (recs.foldl (Writer.write 1012) (Writer.init 1012 false)))).2.1 =
      Writer.listToBytes 1012 false recs := rfl
  rw [hfile]
  exact C03_source_read recs hmax h

/-- `for r in recs: self.write(r)` as translated is the iteration of the translated `write` -/
theorem write_many_eq (recs : List Bytes) : ∀ (fin : Bool) (data : Bytes) (pos : Int),
    Src.VbsWriter_write_many fin data pos recs = srcWriteAll (fin, (data, pos)) recs := by
  unfold Src.VbsWriter_write_many
  induction recs with
  | nil => intros; rfl
  | cons r rs ih =>
    intro fin data pos
    rw [Rt.forO, srcWriteAll]
    simp only []
    cases h : Src.VbsWriter_write fin data pos r with
    | ok st => simp only [bind_ok_eq]; exact ih st.1 st.2.1 st.2.2
    | dataError => rfl
    | escape k => rfl
    | diverge => rfl

/-- C03 through the convenience loop: `write_many`, `close`, then reading back -/
theorem C03_source_write_many_roundtrip (recs : List Bytes) (hmax : Gen.maxVbsRecordLength < 4294967296)
    (h : ∀ r ∈ recs, 0 < r.length ∧ r.length ≤ Gen.maxVbsRecordLength) :
    ∃ st1 st2, Src.VbsWriter_write_many false [] (0 : Int) recs = .ok st1 ∧
      Src.VbsWriter_close st1.1 st1.2.1 st1.2.2 = .ok st2 ∧
      srcReadAll (st2.2.1.length + 1) ((1 : Int), ([], st2.2.1)) = (recs, .eof) := by
  rw [write_many_eq]
  exact C03_source_roundtrip recs hmax h

end Cardutil.SrcTie
