import Cardutil.SrcTie.Base
import Cardutil.Gen.Src
/-
  Source tie for the ELEMENT LOOP of `iso8583._iso8583_to_dict` (C08): the statements from
  `message_pointer = 0` to the end of the function, translated from the current source with the element
  decoder `_iso8583_to_field` and `_get_bitmap_list` as PARAMETERS (any functions of their types).
  What is proved here is therefore a fact about the loop as written, whatever the element decoder does:
  the flagged elements are decoded in ascending order, each from exactly the position where the one
  before it ended, and the function returns only if the last one ended at the end of the data.
-/
namespace Cardutil.SrcTie

open Cardutil Cardutil.Py

abbrev FieldDec := Int → Rt.BitCfg → Bytes → (Bytes → Outcome Text) → Outcome ((Rt.SDict Rt.PyVal) × Int)

/-- the loop body as translated (one pass, state = pointer and result dictionary) -/
def loopStep (F : FieldDec) (flags : List Bool) (cfg : Rt.SDict Rt.BitCfg) (enc : Bytes → Outcome Text) (data : Bytes)
    (st : Int × Rt.SDict Rt.PyVal) (bit : Int) : Outcome (Int × Rt.SDict Rt.PyVal) :=
  Outcome.bind (Rt.getItem flags bit) (fun t1 =>
    if t1 then
      (if (!(Rt.dictHas cfg (Rt.strOfInt bit))) then .dataError
       else
        Outcome.bind (Rt.dictGet cfg (Rt.strOfInt bit)) (fun t2 =>
          Outcome.bind (F bit t2 (Rt.slice data (some st.1) none) enc) (fun t3 =>
            .ok (st.1 + t3.2, Rt.dictUpdate st.2 t3.1))))
    else .ok (st.1, st.2))

theorem loop_unfold (G : Bytes → List Bool) (F : FieldDec) (message data bm : Bytes) (cfg : Rt.SDict Rt.BitCfg)
    (enc : Bytes → Outcome Text) (rv : Rt.SDict Rt.PyVal) :
    Src._iso8583_to_dict_loop G F message data bm cfg enc rv =
      Outcome.bind (Rt.forO (loopStep F (G bm) cfg enc data) (Rt.range 2 129) (0, rv)) (fun st =>
        if (st.1 != Rt.len data) then .dataError else .ok st.2) := rfl

/-- "element `b` is decoded at position `p`": the configuration has it and the decoder returns -/
inductive Tiles (F : FieldDec) (cfg : Rt.SDict Rt.BitCfg) (enc : Bytes → Outcome Text) (data : Bytes) :
    List Int → Int → Rt.SDict Rt.PyVal → Int → Rt.SDict Rt.PyVal → Prop
  | nil (p acc) : Tiles F cfg enc data [] p acc p acc
  | cons (b bs p acc f e inc p' acc') :
      Rt.dictGet cfg (Rt.strOfInt b) = .ok f →
      F b f (Rt.slice data (some p) none) enc = .ok (e, inc) →
      Tiles F cfg enc data bs (p + inc) (Rt.dictUpdate acc e) p' acc' →
      Tiles F cfg enc data (b :: bs) p acc p' acc'

/-- the flagged element numbers among `bs`, in the order of `bs` -/
def flagged (flags : List Bool) (bs : List Int) : List Int := bs.filter (fun b => flags.getD b.toNat false)

theorem getItem_in {α} (l : List α) (i : Int) (h0 : 0 ≤ i) (h1 : i.toNat < l.length) :
    Rt.getItem l i = .ok (l[i.toNat]'h1) := by
  unfold Rt.getItem
  have : ¬ i < 0 := by omega
  simp only [this, if_false]
  rw [List.getElem?_eq_getElem h1]

theorem dictHas_get {β} (d : Rt.SDict β) (k : Text) (h : Rt.dictHas d k = true) : ∃ v, Rt.dictGet d k = .ok v := by
  unfold Rt.dictHas at h
  unfold Rt.dictGet
  cases hf : d.find? (·.1 == k) with
  | some kv => exact ⟨kv.2, rfl⟩
  | none =>
    rw [List.find?_eq_none] at hf
    rw [List.any_eq_true] at h
    obtain ⟨x, hx, hk⟩ := h
    exact absurd hk (hf x hx)

/-- the translated loop over any list of element numbers inside the flag list: it returns exactly when the
    flagged elements tile the data from the starting position -/
theorem forO_tiles (F : FieldDec) (flags : List Bool) (cfg : Rt.SDict Rt.BitCfg) (enc : Bytes → Outcome Text) (data : Bytes) :
    ∀ (bs : List Int) (p : Int) (acc : Rt.SDict Rt.PyVal) (p' : Int) (acc' : Rt.SDict Rt.PyVal),
      (∀ b ∈ bs, 0 ≤ b ∧ b.toNat < flags.length) →
      (Rt.forO (loopStep F flags cfg enc data) bs (p, acc) = .ok (p', acc') ↔
        Tiles F cfg enc data (flagged flags bs) p acc p' acc') := by
  intro bs
  induction bs with
  | nil =>
    intro p acc p' acc' _
    simp only [Rt.forO, flagged, List.filter_nil]
    constructor
    · intro h; injection h with h; injection h with h1 h2; subst h1; subst h2; exact .nil _ _
    · intro h; cases h; rfl
  | cons b bs ih =>
    intro p acc p' acc' hin
    have hb := hin b (by simp)
    have hrest : ∀ x ∈ bs, 0 ≤ x ∧ x.toNat < flags.length := fun x hx => hin x (by simp [hx])
    have hget : flags[b.toNat]?.getD false = flags[b.toNat]'hb.2 := by
      rw [List.getElem?_eq_getElem hb.2]; rfl
    simp only [Rt.forO, loopStep, getItem_in flags b hb.1 hb.2, bind_ok_eq]
    cases hflag : flags[b.toNat]'hb.2 with
    | false =>
      have hf : flagged flags (b :: bs) = flagged flags bs := by
        unfold flagged; rw [List.filter_cons]; simp [hget, hflag]
      simp only [Bool.false_eq_true, if_false, bind_ok_eq, hf]
      exact ih p acc p' acc' hrest
    | true =>
      have hf : flagged flags (b :: bs) = b :: flagged flags bs := by
        unfold flagged; rw [List.filter_cons]; simp [hget, hflag]
      simp only [if_true, hf]
      cases hhas : Rt.dictHas cfg (Rt.strOfInt b) with
      | false =>
        simp only [Bool.not_false, if_true]
        constructor
        · intro h; cases h
        · intro h
          cases h with
          | cons _ _ _ _ f e inc _ _ hg _ _ =>
            exfalso
            unfold Rt.dictGet at hg
            unfold Rt.dictHas at hhas
            cases hfd : cfg.find? (·.1 == Rt.strOfInt b) with
            | none => rw [hfd] at hg; cases hg
            | some kv =>
              have := List.find?_some hfd
              have hm := List.mem_of_find?_eq_some hfd
              have : cfg.any (·.1 == Rt.strOfInt b) = true := List.any_eq_true.mpr ⟨kv, hm, this⟩
              rw [this] at hhas; cases hhas
      | true =>
        obtain ⟨f, hgf⟩ := dictHas_get cfg _ hhas
        simp only [Bool.not_true, Bool.false_eq_true, if_false, hgf, bind_ok_eq]
        cases hF : F b f (Rt.slice data (some p) none) enc with
        | ok r =>
          obtain ⟨e, inc⟩ := r
          simp only [bind_ok_eq]
          rw [ih (p + inc) (Rt.dictUpdate acc e) p' acc' hrest]
          constructor
          · intro h; exact .cons b _ p acc f e inc p' acc' hgf hF h
          · intro h
            cases h with
            | cons _ _ _ _ f2 e2 inc2 _ _ hg2 hF2 ht =>
              rw [hgf] at hg2; injection hg2 with hg2; subst hg2
              rw [hF] at hF2; injection hF2 with hF2; injection hF2 with h1 h2; subst h1; subst h2
              exact ht
        | dataError =>
          simp only [Outcome.bind]
          constructor
          · intro h; cases h
          · intro h
            cases h with
            | cons _ _ _ _ f2 e2 inc2 _ _ hg2 hF2 _ =>
              rw [hgf] at hg2; injection hg2 with hg2; subst hg2
              rw [hF] at hF2; cases hF2
        | escape k =>
          simp only [Outcome.bind]
          constructor
          · intro h; cases h
          · intro h
            cases h with
            | cons _ _ _ _ f2 e2 inc2 _ _ hg2 hF2 _ =>
              rw [hgf] at hg2; injection hg2 with hg2; subst hg2
              rw [hF] at hF2; cases hF2
        | diverge =>
          simp only [Outcome.bind]
          constructor
          · intro h; cases h
          · intro h
            cases h with
            | cons _ _ _ _ f2 e2 inc2 _ _ hg2 hF2 _ =>
              rw [hgf] at hg2; injection hg2 with hg2; subst hg2
              rw [hF] at hF2; cases hF2

theorem range_bounds : ∀ b ∈ Rt.range 2 129, (0 : Int) ≤ b ∧ b.toNat < 129 := by
  intro b hb
  unfold Rt.range at hb
  simp only [List.mem_map, List.mem_range] at hb
  obtain ⟨i, hi, rfl⟩ := hb
  have : ((129 : Int) - 2).toNat = 127 := by decide
  rw [this] at hi
  omega

/-- C08 for the loop as translated: `_iso8583_to_dict` returns `d` exactly when the flagged elements 2..128,
    in ascending order, TILE the message data — each decoded at the position where the one before ended
    (the first at 0), the last ending at `len(message_data)` — and `d` is the result dictionary updated with
    every element's entries in that order.  For any element decoder and any bitmap reader of 129 entries. -/
theorem C08_source_loop_tiles (G : Bytes → List Bool) (F : FieldDec) (message data bm : Bytes) (cfg : Rt.SDict Rt.BitCfg)
    (enc : Bytes → Outcome Text) (rv d : Rt.SDict Rt.PyVal) (hG : (G bm).length = 129) :
    Src._iso8583_to_dict_loop G F message data bm cfg enc rv = .ok d ↔
      Tiles F cfg enc data (flagged (G bm) (Rt.range 2 129)) 0 rv (Rt.len data) d := by
  rw [loop_unfold]
  have hin : ∀ b ∈ Rt.range 2 129, 0 ≤ b ∧ b.toNat < (G bm).length := by rw [hG]; exact range_bounds
  constructor
  · intro h
    cases hl : Rt.forO (loopStep F (G bm) cfg enc data) (Rt.range 2 129) (0, rv) with
    | ok st =>
      obtain ⟨p', acc'⟩ := st
      rw [hl, bind_ok_eq] at h
      by_cases hp : (p' != Rt.len data) = true
      · simp only [hp, if_true] at h; cases h
      · have hp' : p' = Rt.len data := by simpa using hp
        simp only [hp, if_false] at h
        injection h with h; subst h; subst hp'
        exact (forO_tiles F (G bm) cfg enc data _ 0 rv _ _ hin).mp hl
    | dataError => rw [hl] at h; cases h
    | escape k => rw [hl] at h; cases h
    | diverge => rw [hl] at h; cases h
  · intro h
    rw [(forO_tiles F (G bm) cfg enc data _ 0 rv _ _ hin).mpr h, bind_ok_eq]
    simp

/-- what `Tiles` says, spelled out: the positions are the running sums of the increments -/
theorem tiles_positions {F : FieldDec} {cfg : Rt.SDict Rt.BitCfg} {enc : Bytes → Outcome Text} {data : Bytes} :
    ∀ {bs : List Int} {p : Int} {acc : Rt.SDict Rt.PyVal} {p' : Int} {acc' : Rt.SDict Rt.PyVal},
      Tiles F cfg enc data bs p acc p' acc' →
      ∃ incs : List Int, incs.length = bs.length ∧ p' = p + incs.sum := by
  intro bs
  induction bs with
  | nil => intro p acc p' acc' h; cases h; exact ⟨[], rfl, by simp⟩
  | cons b bs ih =>
    intro p acc p' acc' h
    cases h with
    | cons _ _ _ _ f e inc _ _ _ _ ht =>
      obtain ⟨incs, hl, hs⟩ := ih ht
      exact ⟨inc :: incs, by simp [hl], by rw [hs, List.sum_cons]; omega⟩

/-- nothing left over: when the loop returns, the increments of the flagged elements add up to the length
    of the message data -/
theorem C08_source_nothing_left_over (G : Bytes → List Bool) (F : FieldDec) (message data bm : Bytes)
    (cfg : Rt.SDict Rt.BitCfg) (enc : Bytes → Outcome Text) (rv d : Rt.SDict Rt.PyVal) (hG : (G bm).length = 129)
    (h : Src._iso8583_to_dict_loop G F message data bm cfg enc rv = .ok d) :
    ∃ incs : List Int, incs.length = (flagged (G bm) (Rt.range 2 129)).length ∧ incs.sum = (data.length : Int) := by
  obtain ⟨incs, hl, hs⟩ := tiles_positions ((C08_source_loop_tiles G F message data bm cfg enc rv d hG).mp h)
  refine ⟨incs, hl, ?_⟩
  unfold Rt.len at hs
  omega

/-- an element flagged in the bitmap that the configuration does not have is refused (when the elements
    before it decode): stated for the first flagged element -/
theorem C08_source_unconfigured_refused (F : FieldDec) (flags : List Bool) (cfg : Rt.SDict Rt.BitCfg)
    (enc : Bytes → Outcome Text) (data : Bytes) (b : Int) (bs : List Int) (p : Int) (acc : Rt.SDict Rt.PyVal)
    (h0 : 0 ≤ b) (h1 : b.toNat < flags.length) (hflag : flags[b.toNat]'h1 = true)
    (hcfg : Rt.dictHas cfg (Rt.strOfInt b) = false) :
    Rt.forO (loopStep F flags cfg enc data) (b :: bs) (p, acc) = .dataError := by
  simp only [Rt.forO, loopStep, getItem_in flags b h0 h1, bind_ok_eq, hflag, if_true, hcfg, Bool.not_false]
  rfl

/-! ### the WHOLE function: header split, bitmap, MTI check, then the loop -/

/-- what the statements before the loop compute: the MTI text, the 16 bitmap bytes and the message data — or the
    library's data error (message shorter than its header, a hexadecimal bitmap that is no hexadecimal text, an MTI
    that does not decode or is no number) -/
def header (enc : Bytes → Outcome Text) (hex : Bool) (message : Bytes) : Outcome (Text × Bytes × Bytes) :=
  Outcome.bind (Rt.catchData [.structError, .binasciiError]
      (Rt.unpack3 4 (if hex then 32 else 16) (Rt.len message - (if hex then (36 : Int) else (20 : Int))) message)) (fun t =>
    Outcome.bind (if hex then Rt.catchData [.structError, .binasciiError] (Rt.unhexlify t.2.1) else .ok t.2.1) (fun bm =>
      Outcome.bind (Rt.catchData [.valueError, .unicodeError] (enc t.1)) (fun mti =>
        Outcome.bind (Rt.catchData [.valueError, .unicodeError] (Rt.pyvalInt Gen.intClasses (Rt.PyVal.str mti))) (fun _ =>
          .ok (mti, bm, t.2.2)))))

theorem catch_ok {α} (ks : List ExcKind) (a : α) : Rt.catchData ks (Outcome.ok a) = .ok a := rfl

theorem mti_get (mti : Text) :
    Rt.dictGet (Rt.dictSet ([] : Rt.SDict Rt.PyVal) [77, 84, 73] (Rt.PyVal.str mti)) [77, 84, 73] = .ok (Rt.PyVal.str mti) := by
  simp [Rt.dictSet, Rt.dictGet]

/-- `_iso8583_to_dict` as translated = its header statements followed by the element loop started with the MTI entry -/
theorem whole_eq (G : Bytes → List Bool) (F : FieldDec) (message : Bytes) (cfg : Rt.SDict Rt.BitCfg)
    (enc : Bytes → Outcome Text) (hex : Bool) :
    Src._iso8583_to_dict G F message cfg enc hex =
      Outcome.bind (header enc hex message) (fun h =>
        Src._iso8583_to_dict_loop G F message h.2.2 h.2.1 cfg enc [([77, 84, 73], Rt.PyVal.str h.1)]) := by
  unfold Src._iso8583_to_dict header Src._iso8583_to_dict_loop
  cases hex
  · simp only [Bool.false_eq_true, if_false]
    cases Rt.catchData [.structError, .binasciiError] (Rt.unpack3 4 16 (Rt.len message - 20) message) with
    | ok t =>
      simp only [bind_ok_eq]
      cases Rt.catchData [.valueError, .unicodeError] (enc t.1) with
      | ok mti =>
        simp only [bind_ok_eq, mti_get, catch_ok]
        cases Rt.catchData [.valueError, .unicodeError] (Rt.pyvalInt Gen.intClasses (Rt.PyVal.str mti)) <;> rfl
      | dataError => rfl
      | escape k => rfl
      | diverge => rfl
    | dataError => rfl
    | escape k => rfl
    | diverge => rfl
  · simp only [if_true]
    cases Rt.catchData [.structError, .binasciiError] (Rt.unpack3 4 32 (Rt.len message - 36) message) with
    | ok t =>
      simp only [bind_ok_eq]
      cases Rt.catchData [.structError, .binasciiError] (Rt.unhexlify t.2.1) with
      | ok bm =>
        simp only [bind_ok_eq]
        cases Rt.catchData [.valueError, .unicodeError] (enc t.1) with
        | ok mti =>
          simp only [bind_ok_eq, mti_get, catch_ok]
          cases Rt.catchData [.valueError, .unicodeError] (Rt.pyvalInt Gen.intClasses (Rt.PyVal.str mti)) <;> rfl
        | dataError => rfl
        | escape k => rfl
        | diverge => rfl
      | dataError => rfl
      | escape k => rfl
      | diverge => rfl
    | dataError => rfl
    | escape k => rfl
    | diverge => rfl

/-- C08 for the WHOLE decoder as translated: it returns `d` exactly when the header statements succeed — giving the
    MTI text, the bitmap and the message data — and the elements flagged in that bitmap, in ascending order, tile the
    message data from 0 to its length, `d` being the MTI entry updated with every element's entries in that order -/
theorem C08_source_whole (G : Bytes → List Bool) (F : FieldDec) (message : Bytes) (cfg : Rt.SDict Rt.BitCfg)
    (enc : Bytes → Outcome Text) (hex : Bool) (d : Rt.SDict Rt.PyVal) (hG : ∀ bm, (G bm).length = 129) :
    Src._iso8583_to_dict G F message cfg enc hex = .ok d ↔
      ∃ mti bm data, header enc hex message = .ok (mti, bm, data) ∧
        Tiles F cfg enc data (flagged (G bm) (Rt.range 2 129)) 0 [([77, 84, 73], Rt.PyVal.str mti)] (Rt.len data) d := by
  rw [whole_eq]
  constructor
  · intro h
    cases hh : header enc hex message with
    | ok t =>
      obtain ⟨mti, bm, data⟩ := t
      rw [hh, bind_ok_eq] at h
      exact ⟨mti, bm, data, rfl, (C08_source_loop_tiles G F message data bm cfg enc _ d (hG bm)).mp h⟩
    | dataError => rw [hh] at h; cases h
    | escape k => rw [hh] at h; cases h
    | diverge => rw [hh] at h; cases h
  · intro ⟨mti, bm, data, hh, ht⟩
    rw [hh, bind_ok_eq]
    exact (C08_source_loop_tiles G F message data bm cfg enc _ d (hG bm)).mpr ht

/-- a message shorter than its header (20 bytes with a binary bitmap, 36 with a hexadecimal one) is the library's data
    error, whatever follows -/
theorem C08_source_short_refused (G : Bytes → List Bool) (F : FieldDec) (message : Bytes) (cfg : Rt.SDict Rt.BitCfg)
    (enc : Bytes → Outcome Text) (hex : Bool) (h : message.length < (if hex then 36 else 20)) :
    Src._iso8583_to_dict G F message cfg enc hex = .dataError := by
  rw [whole_eq]
  unfold header Rt.unpack3 Rt.len
  cases hex
  · simp only [Bool.false_eq_true, if_false] at h ⊢
    have : ((message.length : Int) - 20 < 0 ∨ (message.length : Int) ≠ ((4 : Nat) : Int) + ((16 : Nat) : Int) + ((message.length : Int) - 20)) := by
      left; omega
    rw [if_pos this]
    rfl
  · simp only [if_true] at h ⊢
    have : ((message.length : Int) - 36 < 0 ∨ (message.length : Int) ≠ ((4 : Nat) : Int) + ((32 : Nat) : Int) + ((message.length : Int) - 36)) := by
      left; omega
    rw [if_pos this]
    rfl

end Cardutil.SrcTie
