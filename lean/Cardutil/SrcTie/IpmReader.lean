import Cardutil.SrcTie.Reader
/-
  Source tie for `mciipm.IpmReader.__next__` (C10): the base reader's method through `super()`, the message decoder
  as an EXTERNAL function of the record (any function to a dictionary or an exception), and the library error of the
  decoder re-raised with the record number remembered BEFORE the read and the raw record — length prefix included — as
  context.
-/
namespace Cardutil.SrcTie

open Cardutil Cardutil.Py Cardutil.Vbs

abbrev Loads := Bytes → Outcome (Rt.SDict Rt.PyVal)

/-- the translated method in terms of the model's framing step -/
theorem ipm_next_eq (L : Loads) (recno : Nat) (last : Option Bytes) (src : Bytes) :
    Src.IpmReader_next L (recno : Int) (last.getD []) src =
      (match next plainSrc Gen.maxVbsRecordLength ⟨src, recno, last⟩ with
       | .record r st =>
         (match L r with
          | .ok d => .ok (.ret (d, ((st.recno : Int), (st.last.getD [], st.src))))
          | .dataError => .ok (.libError (recno : Int) (st.last.getD []))
          | .escape k => .escape k
          | .diverge => .diverge)
       | .done .eof => .ok .stop
       | .done (.dataError n ctx) => .ok (.libError (n : Int) ctx)
       | .done _ => .ok .stop) := by
  unfold Src.IpmReader_next
  rw [reader_next_eq recno last src, bind_ok_eq]
  cases hn : next plainSrc Gen.maxVbsRecordLength ⟨src, recno, last⟩ with
  | record r st =>
    simp only [stepSignal]
    cases L r <;> rfl
  | done e =>
    cases e <;> rfl

/-- C10 for the reader as translated: when the k-th record is framed (the base reader delivers it, its number being
    `recno`) and the decoder refuses it with the library's error, the error raised carries exactly that number and, as
    context, the raw record with its four-byte length prefix -/
theorem C10_source_message_fault (L : Loads) (recno : Nat) (last : Option Bytes) (src rec : Bytes) (st : RState Bytes)
    (hframe : next plainSrc Gen.maxVbsRecordLength ⟨src, recno, last⟩ = .record rec st) (hbad : L rec = .dataError) :
    Src.IpmReader_next L (recno : Int) (last.getD []) src =
      .ok (.libError (recno : Int) ((src.take 4) ++ rec)) := by
  rw [ipm_next_eq, hframe]
  simp only [hbad]
  -- the context: what the framing step recorded as last record = prefix ++ record
  unfold next plainSrc at hframe
  simp only at hframe
  split at hframe
  · cases hframe
  · split at hframe
    · cases hframe
    · split at hframe
      · cases hframe
      · split at hframe
        · cases hframe
        · injection hframe with h1 h2
          subst h2
          subst h1
          rfl

/-- … and a framing-level fault of the base reader (a length above the maximum, a record cut short) passes through with
    the base reader's own number and context -/
theorem C10_source_framing_fault (L : Loads) (recno : Nat) (last : Option Bytes) (src : Bytes) (n : Nat) (ctx : Bytes)
    (h : next plainSrc Gen.maxVbsRecordLength ⟨src, recno, last⟩ = .done (.dataError n ctx)) :
    Src.IpmReader_next L (recno : Int) (last.getD []) src = .ok (.libError (n : Int) ctx) := by
  rw [ipm_next_eq, h]

/-- a record the decoder accepts is delivered, and the state moves on exactly as the base reader's -/
theorem C10_source_delivers (L : Loads) (recno : Nat) (last : Option Bytes) (src rec : Bytes) (st : RState Bytes)
    (d : Rt.SDict Rt.PyVal)
    (hframe : next plainSrc Gen.maxVbsRecordLength ⟨src, recno, last⟩ = .record rec st) (hok : L rec = .ok d) :
    Src.IpmReader_next L (recno : Int) (last.getD []) src =
      .ok (.ret (d, ((st.recno : Int), (st.last.getD [], st.src)))) := by
  rw [ipm_next_eq, hframe]
  simp only [hok]

/-- C07 for the readers as translated, over ANY bytes: the translated `VbsReader.__next__` always RETURNS — a record,
    end of data, or the library's error; no other exception and no divergence, whatever the file holds -/
theorem C07_source_vbs_reader_total (recno : Nat) (last : Option Bytes) (src : Bytes) :
    ∃ sig, Src.VbsReader_next (recno : Int) (last.getD []) src = .ok sig :=
  ⟨_, reader_next_eq recno last src⟩

/-- … and so does the translated `IpmReader.__next__`, for any message decoder that itself ends in a dictionary or the
    library's data error (which is what C07 says of `loads`) -/
theorem C07_source_ipm_reader_total (L : Loads) (hL : ∀ r, (∃ d, L r = .ok d) ∨ L r = .dataError)
    (recno : Nat) (last : Option Bytes) (src : Bytes) :
    ∃ sig, Src.IpmReader_next L (recno : Int) (last.getD []) src = .ok sig := by
  rw [ipm_next_eq]
  cases hn : next plainSrc Gen.maxVbsRecordLength ⟨src, recno, last⟩ with
  | record r st =>
    rcases hL r with ⟨d, hd⟩ | hd
    · simp only [hd]; exact ⟨_, rfl⟩
    · simp only [hd]; exact ⟨_, rfl⟩
  | done e => cases e <;> exact ⟨_, rfl⟩

end Cardutil.SrcTie
