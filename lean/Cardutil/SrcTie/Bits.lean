import Cardutil.SrcTie.Pin
import Cardutil.Model.Iso8583
import Cardutil.Lemmas.Bitmap
/-
  Source tie for `cardutil.BitArray` (C01, C02: "bit list <-> bytes conversion"): the translated `tolist` and
  `fromlist` — which go through ONE big integer (`int(hexlify(bytes), 16)` formatted in binary; `int(bits, 2)`
  turned into bytes) — ARE the byte-by-byte models `Iso.bitsOfBytes` / `Iso.bytesOfBits`, for every non-empty
  byte string / every non-empty list of whole bytes of bits.
-/
namespace Cardutil.SrcTie

open Cardutil Cardutil.Py Cardutil.Digits

/-- value of a byte string read through its hex digits = its base-256 value -/
theorem fromDigits_nibbles_acc (b : Bytes) : ∀ a : Nat,
    (Pin.bytesToNibbles b).foldl (fun a d => 16 * a + d) a = b.foldl (fun a d => 256 * a + d) a := by
  induction b with
  | nil => intro a; rfl
  | cons x xs ih =>
    intro a
    simp only [Pin.bytesToNibbles, List.flatMap_cons, List.foldl_append, List.foldl_cons, List.foldl_nil] at ih ⊢
    rw [ih]
    congr 1
    omega

theorem fromDigits_nibbles (b : Bytes) : fromDigits 16 (Pin.bytesToNibbles b) = fromDigits 256 b :=
  fromDigits_nibbles_acc b 0

/-- eight binary digits at a time -/
theorem toDigits_add8 (w n : Nat) : toDigits 2 (w + 8) n = toDigits 2 w (n / 256) ++ toDigits 2 8 (n % 256) := by
  simp only [toDigits, List.append_assoc, List.nil_append, List.cons_append]
  have e : n / 2 / 2 / 2 / 2 / 2 / 2 / 2 / 2 = n / 256 := by omega
  rw [e]
  congr 1
  have h0 : n % 256 % 2 = n % 2 := by omega
  have h1 : n % 256 / 2 % 2 = n / 2 % 2 := by omega
  have h2 : n % 256 / 2 / 2 % 2 = n / 2 / 2 % 2 := by omega
  have h3 : n % 256 / 2 / 2 / 2 % 2 = n / 2 / 2 / 2 % 2 := by omega
  have h4 : n % 256 / 2 / 2 / 2 / 2 % 2 = n / 2 / 2 / 2 / 2 % 2 := by omega
  have h5 : n % 256 / 2 / 2 / 2 / 2 / 2 % 2 = n / 2 / 2 / 2 / 2 / 2 % 2 := by omega
  have h6 : n % 256 / 2 / 2 / 2 / 2 / 2 / 2 % 2 = n / 2 / 2 / 2 / 2 / 2 / 2 % 2 := by omega
  have h7 : n % 256 / 2 / 2 / 2 / 2 / 2 / 2 / 2 % 2 = n / 2 / 2 / 2 / 2 / 2 / 2 / 2 % 2 := by omega
  rw [h0, h1, h2, h3, h4, h5, h6, h7]

/-- the binary digits of a byte string's value are the bytes' bits, byte after byte -/
theorem toDigits2_bytes (b : Bytes) (hb : IsBytes b) :
    toDigits 2 (8 * b.length) (fromDigits 256 b) = b.flatMap (toDigits 2 8) := by
  induction b using rev_induction with
  | nil => rfl
  | append_singleton bs x ih =>
    have hx : x < 256 := hb x (by simp)
    have ih' := ih (fun y hy => hb y (by simp [hy]))
    rw [List.length_append, List.length_singleton, Nat.mul_add, Nat.mul_one, toDigits_add8, fromDigits_append]
    have h1 : (256 * fromDigits 256 bs + x) / 256 = fromDigits 256 bs := by omega
    have h2 : (256 * fromDigits 256 bs + x) % 256 = x := by omega
    rw [h1, h2, ih']
    simp

theorem bitchar (d : Nat) : (([48 + d] : List Nat) == [49]) = (d == 1) := by
  by_cases h : d = 1
  · subst h; rfl
  · have h0 : ¬ (48 + d = 49) := by omega
    have h1 : (48 + d == 49) = false := beq_false_of_ne h0
    have h2 : (d == 1) = false := beq_false_of_ne h
    simp [h1, h2]

/-- one byte's binary digits as the model's eight flags -/
theorem byte_bits (x : Nat) :
    (toDigits 2 8 x).map (fun d => (([48 + d] : List Nat) == [49])) =
      (List.range 8).map (fun i => (x / 2 ^ (7 - i)) % 2 == 1) := by
  simp only [bitchar, toDigits, List.nil_append, List.cons_append, List.map_cons, List.map_nil]
  have e7 : x / 2 / 2 / 2 / 2 / 2 / 2 / 2 = x / 128 := by omega
  have e6 : x / 2 / 2 / 2 / 2 / 2 / 2 = x / 64 := by omega
  have e5 : x / 2 / 2 / 2 / 2 / 2 = x / 32 := by omega
  have e4 : x / 2 / 2 / 2 / 2 = x / 16 := by omega
  have e3 : x / 2 / 2 / 2 = x / 8 := by omega
  have e2 : x / 2 / 2 = x / 4 := by omega
  rw [e7, e6, e5, e4, e3, e2]
  have hr : List.range 8 = [0, 1, 2, 3, 4, 5, 6, 7] := by decide
  rw [hr]
  simp only [List.map_cons, List.map_nil, Nat.reduceSub, Nat.reducePow, Nat.div_one]

/-- `BitArray.tolist()` (big-endian, the class default) of a non-empty byte string -/
theorem tolist_eq (b : Bytes) (hb : IsBytes b) (hne : b ≠ []) : Src.BitArray_tolist b = .ok (Iso.bitsOfBytes b) := by
  unfold Src.BitArray_tolist
  simp only [hexlify_eq b hb, intHex_bind]
  have hn := nibbles_lt b hb
  have hp := Pin.parseHexText_hexChars _ hn
  have hi : Pin.intHex ((Pin.bytesToNibbles b).map Pin.hexChar) = .ok (fromDigits 256 b) := by
    match hd : Pin.bytesToNibbles b with
    | [] =>
      exfalso
      cases b with
      | nil => exact hne rfl
      | cons x xs => simp [Pin.bytesToNibbles] at hd
    | n :: ns =>
      rw [hd] at hp
      rw [Pin.intHex_of_parse hp, ← hd, fromDigits_nibbles]
  rw [hi, bind_ok_eq]
  have hlt : fromDigits 256 b < 2 ^ (8 * b.length) := by
    have := fromDigits_lt b hb
    rw [show (256 : Nat) = 2 ^ 8 by decide, ← Nat.pow_mul] at this
    exact this
  have hw : (Rt.len b * (8 : Int)).toNat = 8 * b.length := by simp only [Rt.len]; omega
  simp only [Rt.fmtBinW, Int.toNat_natCast, hw, Pin.fmtBinW, hlt, if_true, List.map_map]
  rw [toDigits2_bytes b hb]
  congr 1
  simp only [Iso.bitsOfBytes, List.map_flatMap]
  congr 1
  funext x
  exact byte_bits x

/-! ### `fromlist` -/

theorem join_bitchars (bits : List Bool) :
    Rt.joinStr (bits.map (fun val => if val then [49] else [48])) = bits.map (fun v => 48 + Iso.b2n v) := by
  induction bits with
  | nil => rfl
  | cons b bs ih =>
    simp only [Rt.joinStr, List.map_cons, List.flatten_cons] at ih ⊢
    rw [ih]
    cases b <;> rfl

theorem mapM_bitchars (bits : List Bool) :
    (bits.map (fun v => 48 + Iso.b2n v)).mapM Pin.binDigit? = some (bits.map Iso.b2n) := by
  induction bits with
  | nil => rfl
  | cons b bs ih =>
    simp only [List.map_cons, List.mapM_cons, ih]
    cases b <;> rfl

theorem intBin_bitchars (bits : List Bool) (hne : bits ≠ []) :
    Pin.intBin (bits.map (fun v => 48 + Iso.b2n v)) = .ok (fromDigits 2 (bits.map Iso.b2n)) := by
  unfold Pin.intBin
  rw [mapM_bitchars]
  cases bits with
  | nil => exact absurd rfl hne
  | cons b bs => rfl

theorem b2n_lt (bits : List Bool) : ∀ d ∈ bits.map Iso.b2n, d < 2 := by
  intro d hd
  obtain ⟨b, _, rfl⟩ := List.mem_map.mp hd
  cases b <;> decide

theorem bits_back (l : List Nat) (h : ∀ d ∈ l, d < 2) : (l.map (fun d => d == 1)).map Iso.b2n = l := by
  induction l with
  | nil => rfl
  | cons d ds ih =>
    have hd : d < 2 := h d (by simp)
    have := ih (fun x hx => h x (by simp [hx]))
    simp only [List.map_cons, this]
    congr 1
    have : d = 0 ∨ d = 1 := by omega
    rcases this with rfl | rfl <;> rfl

/-- the bytes' binary digits are the numeric values of the model's flags -/
theorem flatMap_bits (B : Bytes) : B.flatMap (toDigits 2 8) = (Iso.bitsOfBytes B).map Iso.b2n := by
  have hl : ∀ d ∈ B.flatMap (toDigits 2 8), d < 2 := by
    intro d hd
    obtain ⟨x, _, hx⟩ := List.mem_flatMap.mp hd
    exact toDigits_lt (by decide) 8 x d hx
  have e : (B.flatMap (toDigits 2 8)).map (fun d => d == 1) = Iso.bitsOfBytes B := by
    simp only [Iso.bitsOfBytes, List.map_flatMap]
    congr 1
    funext x
    have := byte_bits x
    simp only [bitchar] at this
    exact this
  rw [← e, bits_back _ hl]

/-- `BitArray.fromlist(bits)` for one or more whole bytes of bits: the new `self.bytes` -/
theorem fromlist_eq (old : Bytes) (bits : List Bool) (n : Nat) (h : bits.length = 8 * n) (hn : 1 ≤ n) :
    Src.BitArray_fromlist old bits = .ok (Iso.bytesOfBits bits) := by
  have hne : bits ≠ [] := by intro e; subst e; simp at h; omega
  unfold Src.BitArray_fromlist
  simp only [join_bitchars, bind_ok_right]
  unfold Rt.intBin
  rw [intBin_bitchars bits hne]
  simp only [Outcome.bind]
  -- the value is that of the model's bytes
  have hB := Iso.bitsOfBytes_bytesOfBits n bits h
  have hBl := Iso.bytesOfBits_length n bits h
  have hBb : IsBytes (Iso.bytesOfBits bits) := Iso.bytesOfBits_lt n bits h
  have hlt : fromDigits 256 (Iso.bytesOfBits bits) < 2 ^ (8 * n) := by
    have := fromDigits_lt _ hBb
    rw [hBl, show (256 : Nat) = 2 ^ 8 by decide, ← Nat.pow_mul] at this
    exact this
  have hv : fromDigits 2 (bits.map Iso.b2n) = fromDigits 256 (Iso.bytesOfBits bits) := by
    have h2 := toDigits2_bytes _ hBb
    rw [flatMap_bits, hB, hBl] at h2
    rw [← h2, fromDigits_toDigits _ _ hlt]
  have hlen : ((Rt.len (bits.map (fun v => 48 + Iso.b2n v))) / (8 : Int)).toNat = n := by
    simp only [Rt.len, List.length_map, h]
    omega
  rw [hlen, hv]
  have hlt' : fromDigits 256 (Iso.bytesOfBits bits) < 256 ^ n := by
    rw [show (256 : Nat) = 2 ^ 8 by decide, ← Nat.pow_mul]; exact hlt
  simp only [Rt.toBytes, Int.toNat_natCast, hlt', Int.natCast_nonneg, and_self, if_true]
  have := toDigits_fromDigits _ hBb
  rw [hBl] at this
  rw [this]

/-! ### C01 / C02 restated for the translated code -/

/-- any whole number of bytes of flags survives the TRANSLATED `fromlist` followed by the TRANSLATED `tolist` -/
theorem C01_source_bits_roundtrip (old : Bytes) (bits : List Bool) (n : Nat) (h : bits.length = 8 * n) (hn : 1 ≤ n) :
    Outcome.bind (Src.BitArray_fromlist old bits) (fun b => Src.BitArray_tolist b) = .ok bits := by
  rw [fromlist_eq old bits n h hn, bind_ok_eq]
  have hl := Iso.bytesOfBits_length n bits h
  have hne : Iso.bytesOfBits bits ≠ [] := by
    intro e; rw [e] at hl; simp at hl; omega
  rw [tolist_eq _ (Iso.bytesOfBits_lt n bits h) hne, Iso.bitsOfBytes_bytesOfBits n bits h]

/-- C02, bitmap clause, for the TRANSLATED `fromlist`: the 128 presence flags (bit 1 on, bit n on iff element n is
    present) become exactly the model's 16-byte bitmap `bitmapOf` -/
theorem C02_source_bitmap (old : Bytes) (present : List Nat) :
    Src.BitArray_fromlist old (Iso.flagsOf present) = .ok (Iso.bitmapOf present) := by
  rw [Iso.bitmapOf_eq]
  exact fromlist_eq old _ 16 (by rw [Iso.flagsOf_length]) (by decide)

/-- … and the TRANSLATED `tolist` of that bitmap gives the flags back -/
theorem C02_source_bitmap_read (present : List Nat) :
    Src.BitArray_tolist (Iso.bitmapOf present) = .ok (Iso.flagsOf present) := by
  have hl := Iso.bitmapOf_length present
  have hne : Iso.bitmapOf present ≠ [] := by intro e; rw [e] at hl; simp at hl
  rw [tolist_eq _ (Iso.bitmapOf_lt present) hne, Iso.bitmapOf_eq,
    Iso.bitsOfBytes_bytesOfBits 16 _ (by rw [Iso.flagsOf_length])]

end Cardutil.SrcTie
