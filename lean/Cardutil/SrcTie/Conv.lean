import Cardutil.SrcTie.Field
/-
  Source tie for `iso8583._pytype_to_string` (C02): the typed conversion on ENCODE — an int / Decimal / datetime (or
  their text) rendered as the text the element carries; `_get_date_from_string` (dateutil, or the library's fallback
  parser) is a parameter, as it is in the model (`env.parseDate`).
-/
namespace Cardutil.SrcTie

open Cardutil Cardutil.Py Cardutil.Iso

/-- a model value as the translated code sees it -/
def anyOfVal : Val → Rt.AnyVal
  | .str t => .str t
  | .int i => .int i
  | .bytes b => .bytes b
  | .dt d => .dt d
  | .dec d => .dec d

/-- the date parser handed to the translated function: the model's `parseDate` on text; other types are not dates -/
def dateExt (env : Env) : Rt.AnyVal → Outcome DateTime
  | .str t => (match env.parseDate t with
    | some d => .ok d
    | none => .escape .valueError)
  | _ => .escape .typeError

/-- the value kinds each configured type is documented to take (the model answers TypeError for the others; Python
    converts some of them — `int(Decimal)`, `int(bytes)` — which no caller of the library relies on) -/
def Compatible (f : FieldCfg) (v : Val) : Prop :=
  match f.pytype, v with
  | .str, _ => True
  | .int, .str _ => True
  | .int, .int _ => True
  | .decimal, .str _ => True
  | .decimal, .int _ => True
  | .decimal, .dec _ => True
  | .datetime, .dt _ => True
  | .datetime, .str _ => True
  | _, _ => False

theorem pytypeText_int_mem : List.contains [[105, 110, 116], [108, 111, 110, 103]] (pytypeText .int) = true := by decide
theorem pytypeText_str_mem : List.contains [[105, 110, 116], [108, 111, 110, 103]] (pytypeText .str) = false := by decide
theorem pytypeText_dec_mem : List.contains [[105, 110, 116], [108, 111, 110, 103]] (pytypeText .decimal) = false := by decide
theorem pytypeText_dt_mem : List.contains [[105, 110, 116], [108, 111, 110, 103]] (pytypeText .datetime) = false := by decide

theorem fmtText_isEmpty (ds : List Directive) (h : ds ≠ []) : (fmtText ds).isEmpty = false := by
  cases ds with
  | nil => exact absurd rfl h
  | cons D ds => cases D <;> simp [fmtText, dirText]

theorem formatDt_eq (d : DateTime) (ds : List Directive) (hne : ds ≠ []) (hnp : NoPercent ds) :
    Rt.formatDt d (fmtText ds) = .ok (strftime ds d) := by
  unfold Rt.formatDt
  rw [fmtText_isEmpty ds hne, parseFormat_fmtText ds hnp]
  rfl

/-- `_pytype_to_string` as translated = the model's `pyTypeToString`, for the value kinds each type takes, a date
    format of at least one directive or literal and without a literal '%' -/
theorem pytype_to_string_eq (env : Env) (f : FieldCfg) (v : Val) (hk : env.classes = Gen.intClasses)
    (hc : Compatible f v) (hne : f.pytype = .datetime → f.dateFmt ≠ []) (hnp : NoPercent f.dateFmt) :
    Src._pytype_to_string (dateExt env) (anyOfVal v) (toRtTyped f) =
      Outcome.bind (pyTypeToString env f v) (fun r => .ok (anyOfVal r)) := by
  unfold Src._pytype_to_string pyTypeToString
  have hT : (toRtTyped f).field_python_type = pytypeText f.pytype := rfl
  have hL : (toRtTyped f).field_length = (f.length : Int) := rfl
  have hD : Option.getD (toRtTyped f).field_date_format [37, 121, 37, 109, 37, 100] = fmtText f.dateFmt := rfl
  simp only [hT, hL, hD]
  have hw : ¬ ((f.length : Int) < 0) := by omega
  cases hp : f.pytype with
  | str =>
    simp only [pytypeText_str_mem, Bool.false_eq_true, if_false]
    have e1 : (pytypeText PyType.str == [100, 101, 99, 105, 109, 97, 108]) = false := by decide
    have e2 : (pytypeText PyType.str == [100, 97, 116, 101, 116, 105, 109, 101]) = false := by decide
    simp only [e1, e2, Bool.false_eq_true, if_false]
    rfl
  | int =>
    simp only [pytypeText_int_mem, if_true]
    have e1 : (pytypeText PyType.int == [100, 101, 99, 105, 109, 97, 108]) = false := by decide
    have e2 : (pytypeText PyType.int == [100, 97, 116, 101, 116, 105, 109, 101]) = false := by decide
    simp only [e1, e2, Bool.false_eq_true, if_false]
    unfold Compatible at hc
    rw [hp] at hc
    cases v with
    | str t =>
      simp only [anyOfVal, Rt.anyInt, Rt.intOfStr, ← hk]
      cases pyInt env.classes t with
      | none => rfl
      | some i => simp only [bind_ok_eq, Rt.fmtIntSpec, hw, if_false, Int.toNat_natCast]
    | int i => simp only [anyOfVal, Rt.anyInt, bind_ok_eq, Rt.fmtIntSpec, hw, if_false, Int.toNat_natCast]
    | bytes b => exact absurd hc (by simp)
    | dt d => exact absurd hc (by simp)
    | dec d => exact absurd hc (by simp)
  | decimal =>
    simp only [pytypeText_dec_mem, Bool.false_eq_true, if_false]
    have e1 : (pytypeText PyType.decimal == [100, 101, 99, 105, 109, 97, 108]) = true := by decide
    have e2 : (pytypeText PyType.decimal == [100, 97, 116, 101, 116, 105, 109, 101]) = false := by decide
    simp only [e1, e2, Bool.false_eq_true, if_false, if_true]
    unfold Compatible at hc
    rw [hp] at hc
    have fin : ∀ d : Dec, Outcome.bind (Rt.fmtDecSpec (f.length : Int) d) (fun t4 => Outcome.ok (Rt.AnyVal.str t4)) =
        Outcome.bind (match fmtDecF f.length d with
          | some t => Outcome.ok (Val.str t)
          | none => Outcome.escape ExcKind.valueError) (fun r => Outcome.ok (anyOfVal r)) := by
      intro d
      simp only [Rt.fmtDecSpec, hw, if_false, Int.toNat_natCast]
      cases fmtDecF f.length d <;> rfl
    cases v with
    | str t =>
      simp only [anyOfVal, Rt.anyDecimal, Rt.decimalOfStr, ← hk]
      cases pyDecimal env.classes t with
      | none => rfl
      | some d => simp only [bind_ok_eq]; exact fin d
    | int i => simp only [anyOfVal, Rt.anyDecimal, bind_ok_eq]; exact fin _
    | dec d => simp only [anyOfVal, Rt.anyDecimal, bind_ok_eq]; exact fin d
    | bytes b => exact absurd hc (by simp)
    | dt d => exact absurd hc (by simp)
  | datetime =>
    simp only [pytypeText_dt_mem, Bool.false_eq_true, if_false]
    have e1 : (pytypeText PyType.datetime == [100, 101, 99, 105, 109, 97, 108]) = false := by decide
    have e2 : (pytypeText PyType.datetime == [100, 97, 116, 101, 116, 105, 109, 101]) = true := by decide
    simp only [e1, e2, Bool.false_eq_true, if_false, if_true]
    unfold Compatible at hc
    rw [hp] at hc
    have hfd := fun d => formatDt_eq d f.dateFmt (hne hp) hnp
    cases v with
    | dt d => simp only [anyOfVal, hfd, bind_ok_eq]
    | str t =>
      simp only [anyOfVal, dateExt]
      cases env.parseDate t with
      | none => rfl
      | some d => simp only [bind_ok_eq, hfd]
    | int i => exact absurd hc (by simp)
    | bytes b => exact absurd hc (by simp)
    | dec d => exact absurd hc (by simp)

/-- C02, numbers and dates, for the conversion as translated: an integer element is rendered zero-filled to exactly
    its width (the sign counted), whatever spelling of the number the caller gave -/
theorem C02_source_int_rendering (env : Env) (f : FieldCfg) (i : Int) (hk : env.classes = Gen.intClasses)
    (hp : f.pytype = .int) (hnp : NoPercent f.dateFmt) :
    Src._pytype_to_string (dateExt env) (.int i) (toRtTyped f) = .ok (.str (fmtInt f.length i)) := by
  have := pytype_to_string_eq env f (.int i) hk (by unfold Compatible; rw [hp]; trivial) (by rw [hp]; intro h; cases h) hnp
  rw [show anyOfVal (.int i) = Rt.AnyVal.int i from rfl] at this
  rw [this]
  unfold pyTypeToString
  rw [hp]
  rfl

/-- … and a datetime element is the value formatted by the configured format -/
theorem C02_source_date_rendering (env : Env) (f : FieldCfg) (d : DateTime) (hk : env.classes = Gen.intClasses)
    (hp : f.pytype = .datetime) (hne : f.dateFmt ≠ []) (hnp : NoPercent f.dateFmt) :
    Src._pytype_to_string (dateExt env) (.dt d) (toRtTyped f) = .ok (.str (strftime f.dateFmt d)) := by
  have := pytype_to_string_eq env f (.dt d) hk (by unfold Compatible; rw [hp]; trivial) (fun _ => hne) hnp
  rw [show anyOfVal (.dt d) = Rt.AnyVal.dt d from rfl] at this
  rw [this]
  unfold pyTypeToString
  rw [hp]
  rfl

end Cardutil.SrcTie
