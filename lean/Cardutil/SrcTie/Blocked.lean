import Cardutil.SrcTie.RoundTrip
import Cardutil.SrcTie.Unblock
/-
  Source tie for the BLOCKED (1014) writer and reader (C03, C04, C05 together): `Block1014` translated over a file
  (data + position) instead of an append-only sink — `write`, `finalise`, `seek` —, `VbsWriter.write` / `close` translated
  with `out_file` being such a Block1014 object, and `VbsReader.__next__` translated with `vbs_data` being an
  Unblock1014 object.  The translated methods ARE the model's blocked writer and reader (for a file being written at
  its end, which is where a fresh writer is until it is closed); and together: records written with the translated
  blocked writer, finalised with the translated close and read back by iterating the translated blocked reader come
  back unchanged, in order, then end of data.
-/
namespace Cardutil.SrcTie

open Cardutil Cardutil.Py Cardutil.Vbs Cardutil.Block

/-- a write at the end of the file appends -/
theorem fwrite_end (d b : Bytes) : Rt.fwrite d (d.length : Int) b = (d ++ b, ((d ++ b).length : Int)) := by
  unfold Rt.fwrite
  have e1 : ((d.length : Int)).toNat = d.length := by omega
  simp only [e1, List.take_length, List.length_append]
  refine Prod.ext ?_ ?_
  · simp only []
    rw [List.drop_of_length_le (by omega)]
    simp
  · simp only []; omega

def fCond (st : Int × Bytes × Int × Bytes) : Bool := decide (Rt.len st.2.2.2 > (1012 : Int))

def fBody (st : Int × Bytes × Int × Bytes) : Outcome (Bool × (Int × Bytes × Int × Bytes)) :=
  let fw := Rt.fwrite st.2.1 st.2.2.1 (Rt.slice st.2.2.2 none (some (1012 : Int)))
  let fw2 := Rt.fwrite fw.1 fw.2 (Rt.mulSeq [64] (2 : Int))
  .ok (true, (st.1, fw2.1, fw2.2, Rt.slice st.2.2.2 (some (1012 : Int)) none))

/-- the inner `while` of `Block1014.write` over a file written at its end -/
theorem write_loop_file : ∀ (fuel : Nat) (rem : Int) (d b : Bytes), b.length < fuel →
    Rt.whileO fuel fCond fBody (rem, d, (d.length : Int), b) =
      .ok (rem, d ++ (wloop 1012 b).1, ((d ++ (wloop 1012 b).1).length : Int), (wloop 1012 b).2) := by
  intro fuel
  induction fuel with
  | zero => intro rem d b h; omega
  | succ fuel ih =>
    intro rem d b hf
    rw [Rt.whileO, wloop]
    by_cases hc : 1012 < b.length
    · have hcond : fCond (rem, d, (d.length : Int), b) = true := by simp [fCond, Rt.len]; omega
      have hm : (1012 < b.length ∧ 0 < 1012) := ⟨hc, by decide⟩
      rw [if_pos hcond, if_pos hm]
      simp only [fBody, Outcome.bind, if_true]
      rw [fwrite_end, fwrite_end]
      rw [slice_to _ _ (by decide), slice_from _ _ (by decide), pp_eq]
      have h1 : (1012 : Int).toNat = 1012 := rfl
      rw [h1, ih _ _ _ (by simp [List.length_drop]; omega)]
      simp [List.append_assoc]
    · have hcond : fCond (rem, d, (d.length : Int), b) = false := by simp [fCond, Rt.len]; omega
      have hm : ¬ (1012 < b.length ∧ 0 < 1012) := fun h => hc h.1
      rw [hcond, if_neg hm]
      simp

theorem block_writeF_unfold (fuel : Nat) (rem : Int) (d : Bytes) (pos : Int) (w : Bytes) :
    Src.Block1014F_write fuel rem d pos w =
      if decide (Rt.len w < rem) then .ok (rem - Rt.len w, Rt.fwrite d pos w)
      else (Rt.whileO fuel fCond fBody
              (rem, (Rt.fwrite (Rt.fwrite d pos (Rt.slice w none (some rem))).1 (Rt.fwrite d pos (Rt.slice w none (some rem))).2
                      (Rt.mulSeq [64] (2 : Int))).1,
                    (Rt.fwrite (Rt.fwrite d pos (Rt.slice w none (some rem))).1 (Rt.fwrite d pos (Rt.slice w none (some rem))).2
                      (Rt.mulSeq [64] (2 : Int))).2,
                    Rt.slice w (some rem) none)).bind
            (fun st => .ok ((1012 : Int) - Rt.len st.2.2.2, Rt.fwrite st.2.1 st.2.2.1 st.2.2.2)) := rfl

/-- `Block1014.write` over a file written at its end: the model's bytes are appended -/
theorem block_writeF_eq (fuel : Nat) (rem : Nat) (d w : Bytes) (hf : w.length < fuel) :
    Src.Block1014F_write fuel (rem : Int) d (d.length : Int) w =
      .ok ((((write 1012 rem w).2 : Nat) : Int),
           (d ++ (write 1012 rem w).1, ((d ++ (write 1012 rem w).1).length : Int))) := by
  rw [block_writeF_unfold]
  unfold write
  by_cases h : w.length < rem
  · have hd : decide (Rt.len w < (rem : Int)) = true := by simp [Rt.len]; omega
    rw [hd, if_pos h, fwrite_end]
    simp only [if_true, Rt.len]
    congr 2
    omega
  · have hd : decide (Rt.len w < (rem : Int)) = false := by simp [Rt.len]; omega
    rw [hd, if_neg h]
    simp only [Bool.false_eq_true, if_false]
    rw [fwrite_end, fwrite_end]
    rw [slice_to _ _ (by omega), slice_from _ _ (by omega), pp_eq]
    have h1 : ((rem : Int)).toNat = rem := by omega
    rw [h1, write_loop_file fuel _ _ _ (by simp [List.length_drop]; omega)]
    simp only [Outcome.bind, Rt.len]
    rw [fwrite_end]
    obtain ⟨_, _, _, _, _, hle, _⟩ := wloop_spec (P := 1012) (by decide) (w.drop rem)
    congr 2
    · omega
    · simp [List.append_assoc]

/-- `Block1014.finalise` over a file written at its end -/
theorem block_finaliseF_eq (rem : Nat) (d : Bytes) :
    Src.Block1014F_finalise (rem : Int) d (d.length : Int) =
      ((((finalise 1012 rem).2 : Nat) : Int), (d ++ (finalise 1012 rem).1, ((d ++ (finalise 1012 rem).1).length : Int))) := by
  unfold Src.Block1014F_finalise finalise
  simp only []
  rw [mulSeq_single, fwrite_end]
  have : ((rem : Int) + 2).toNat = rem + 2 := by omega
  rw [this]
  rfl

/-- `Block1014.seek(pos)`: finalise, then position the wrapped file -/
theorem block_seekF_eq (rem : Nat) (d : Bytes) (pos : Int) :
    Src.Block1014F_seek (rem : Int) d (d.length : Int) pos =
      ((((finalise 1012 rem).2 : Nat) : Int), (d ++ (finalise 1012 rem).1, pos)) := by
  unfold Src.Block1014F_seek
  rw [block_finaliseF_eq]

/-! ### the blocked writer -/

/-- the writer is where a fresh writer is until it is closed: at the end of what it has written -/
def AtEnd (s : Writer.St) : Prop := s.file.pos = s.file.data.length

/-- the blocked writer state of the model, as the translated methods see it -/
def wstateB (s : Writer.St) : Bool × (Int × (Bytes × Int)) :=
  (s.closed, ((s.rem : Int), (s.file.data, (s.file.pos : Int))))

theorem rawWriteB (fuel : Nat) (s : Writer.St) (hb : s.blocked = true) (he : AtEnd s) (b : Bytes) (hf : b.length < fuel) :
    Src.Block1014F_write fuel (s.rem : Int) s.file.data (s.file.pos : Int) b =
      .ok (((Writer.rawWrite 1012 s b).rem : Int),
           ((Writer.rawWrite 1012 s b).file.data, ((Writer.rawWrite 1012 s b).file.pos : Int))) ∧
    AtEnd (Writer.rawWrite 1012 s b) ∧ (Writer.rawWrite 1012 s b).blocked = true ∧
    (Writer.rawWrite 1012 s b).closed = s.closed := by
  obtain ⟨⟨d, pos⟩, blocked, rem, closed⟩ := s
  simp only [AtEnd] at he
  simp only at hb he
  subst hb
  subst he
  simp only [Writer.rawWrite, if_true, Writer.file_write_end, AtEnd]
  exact ⟨block_writeF_eq fuel rem d b hf, trivial, trivial, trivial⟩

theorem writerB_write_unfold (fuel : Nat) (fin : Bool) (rem : Int) (d : Bytes) (pos : Int) (r : Bytes) :
    Src.VbsWriterB_write fuel fin rem d pos r =
      Outcome.bind (Rt.packI (Rt.len r)) (fun t1 =>
        Outcome.bind (Src.Block1014F_write fuel rem d pos t1) (fun sc =>
          Outcome.bind (Src.Block1014F_write fuel sc.1 sc.2.1 sc.2.2 r) (fun sc2 =>
            .ok (fin, (sc2.1, (sc2.2.1, sc2.2.2)))))) := rfl

theorem be32_length (n : Nat) : (be32 n).length = 4 := rfl

/-- `VbsWriter.write(record)` on a blocked writer (records below 2^32 bytes, enough fuel for the block loop) -/
theorem writerB_write_eq (fuel : Nat) (s : Writer.St) (hb : s.blocked = true) (he : AtEnd s) (r : Bytes)
    (hr : r.length < 4294967296) (hf : r.length < fuel) (hf4 : 4 < fuel) :
    Src.VbsWriterB_write fuel s.closed (s.rem : Int) s.file.data (s.file.pos : Int) r =
      .ok (wstateB (Writer.write 1012 s r)) ∧
    AtEnd (Writer.write 1012 s r) ∧ (Writer.write 1012 s r).blocked = true ∧ (Writer.write 1012 s r).closed = s.closed := by
  rw [writerB_write_unfold]
  have hp : Rt.packI (Rt.len r) = .ok (be32 r.length) := packI_eq r.length hr
  rw [hp, bind_ok_eq]
  obtain ⟨h1, he1, hb1, hc1⟩ := rawWriteB fuel s hb he (be32 r.length) (by rw [be32_length]; exact hf4)
  rw [h1, bind_ok_eq]
  obtain ⟨h2, he2, hb2, hc2⟩ := rawWriteB fuel (Writer.rawWrite 1012 s (be32 r.length)) hb1 he1 r hf
  simp only []
  rw [h2, bind_ok_eq]
  unfold Writer.write
  refine ⟨?_, he2, hb2, hc2.trans hc1⟩
  simp only [wstateB, hc2, hc1]

theorem writerB_close_unfold (fuel : Nat) (fin : Bool) (rem : Int) (d : Bytes) (pos : Int) :
    Src.VbsWriterB_close fuel fin rem d pos =
      if fin then .ok (fin, (rem, (d, pos)))
      else Outcome.bind (Rt.packI (0 : Int)) (fun t1 =>
        Outcome.bind (Src.Block1014F_write fuel rem d pos t1) (fun sc =>
          .ok (true, ((Src.Block1014F_seek sc.1 sc.2.1 sc.2.2 (0 : Int)).1,
                      ((Src.Block1014F_seek sc.1 sc.2.1 sc.2.2 (0 : Int)).2.1,
                       (Src.Block1014F_seek sc.1 sc.2.1 sc.2.2 (0 : Int)).2.2))))) := rfl

/-- `VbsWriter.close()` on a blocked writer that has not been finalised -/
theorem writerB_close_eq (fuel : Nat) (s : Writer.St) (hb : s.blocked = true) (he : AtEnd s) (hc : s.closed = false)
    (hf4 : 4 < fuel) :
    Src.VbsWriterB_close fuel s.closed (s.rem : Int) s.file.data (s.file.pos : Int) =
      .ok (wstateB (Writer.close 1012 s)) := by
  rw [writerB_close_unfold, hc]
  simp only [Bool.false_eq_true, if_false]
  have hp : Rt.packI (0 : Int) = .ok (be32 0) := packI_eq 0 (by decide)
  rw [hp, bind_ok_eq]
  obtain ⟨h1, he1, hb1, hc1⟩ := rawWriteB fuel s hb he (be32 0) (by rw [be32_length]; exact hf4)
  rw [h1, bind_ok_eq]
  simp only []
  have hpos : ((Writer.rawWrite 1012 s (be32 0)).file.pos : Int) =
      ((Writer.rawWrite 1012 s (be32 0)).file.data.length : Int) := by
    unfold AtEnd at he1; rw [he1]
  rw [hpos, block_seekF_eq]
  unfold Writer.close
  rw [hc]
  simp only [Bool.false_eq_true, if_false, hb1, if_true, wstateB, File.seek0]
  have hw : (Writer.rawWrite 1012 s (be32 0)).file.write (finalise 1012 (Writer.rawWrite 1012 s (be32 0)).rem).1 =
      ⟨(Writer.rawWrite 1012 s (be32 0)).file.data ++ (finalise 1012 (Writer.rawWrite 1012 s (be32 0)).rem).1,
       ((Writer.rawWrite 1012 s (be32 0)).file.data ++ (finalise 1012 (Writer.rawWrite 1012 s (be32 0)).rem).1).length⟩ := by
    have := Writer.file_write_end (Writer.rawWrite 1012 s (be32 0)).file.data
      (finalise 1012 (Writer.rawWrite 1012 s (be32 0)).rem).1
    unfold AtEnd at he1
    rw [← he1] at this
    exact this
  rw [hw]
  rfl

/-- leaving the `with` block is `close()` (blocked writer) -/
theorem writerB_exit_eq (fuel : Nat) (fin : Bool) (rem : Int) (d : Bytes) (pos : Int) :
    Src.VbsWriterB_exit fuel fin rem d pos () () () = Src.VbsWriterB_close fuel fin rem d pos := by
  unfold Src.VbsWriterB_exit
  exact bind_ok_right _

/-- a finalised blocked writer: `close()` does nothing at all -/
theorem writerB_close_closed (fuel : Nat) (rem : Int) (d : Bytes) (pos : Int) :
    Src.VbsWriterB_close fuel true rem d pos = .ok (true, (rem, (d, pos))) := by
  rw [writerB_close_unfold]; rfl

/-- `close()` or leaving the `with` block, with the translated blocked methods -/
def srcFinB (fuel : Nat) (st : Bool × (Int × (Bytes × Int))) (f : Writer.Fin) : Outcome (Bool × (Int × (Bytes × Int))) :=
  match f with
  | .close => Src.VbsWriterB_close fuel st.1 st.2.1 st.2.2.1 st.2.2.2
  | .exit => Src.VbsWriterB_exit fuel st.1 st.2.1 st.2.2.1 st.2.2.2 () () ()

def srcFinsB (fuel : Nat) : Bool × (Int × (Bytes × Int)) → List Writer.Fin → Outcome (Bool × (Int × (Bytes × Int)))
  | st, [] => .ok st
  | st, f :: fs => (srcFinB fuel st f).bind (fun st' => srcFinsB fuel st' fs)

theorem srcFinsB_closed (fuel : Nat) (fs : List Writer.Fin) (rem : Int) (d : Bytes) (pos : Int) :
    srcFinsB fuel (true, (rem, (d, pos))) fs = .ok (true, (rem, (d, pos))) := by
  induction fs with
  | nil => rfl
  | cons f fs ih =>
    rw [srcFinsB]
    have : srcFinB fuel (true, (rem, (d, pos))) f = .ok (true, (rem, (d, pos))) := by
      cases f
      · exact writerB_close_closed fuel rem d pos
      · show Src.VbsWriterB_exit fuel true rem d pos () () () = _
        rw [writerB_exit_eq]; exact writerB_close_closed fuel rem d pos
    rw [this, bind_ok_eq]
    exact ih

/-- C11 for the code as translated (BLOCKED writer, not yet finalised, at the end of what it has written): ANY non-empty
    history of translated `close()` / `__exit__` calls leaves exactly the state — file content, position, counters — a
    single `close()` leaves: the model's closed file.  A second finalisation writes nothing. -/
theorem C11_source_blocked (fuel : Nat) (hf4 : 4 < fuel) (s : Writer.St) (hb : s.blocked = true) (he : AtEnd s)
    (hc : s.closed = false) (f : Writer.Fin) (fs : List Writer.Fin) :
    srcFinsB fuel (wstateB s) (f :: fs) = .ok (wstateB (Writer.close 1012 s)) := by
  have h1 : srcFinB fuel (wstateB s) f = .ok (wstateB (Writer.close 1012 s)) := by
    cases f
    · exact writerB_close_eq fuel s hb he hc hf4
    · show Src.VbsWriterB_exit fuel s.closed (s.rem : Int) s.file.data (s.file.pos : Int) () () () = _
      rw [writerB_exit_eq]; exact writerB_close_eq fuel s hb he hc hf4
  rw [srcFinsB, h1, bind_ok_eq]
  have hcl : (Writer.close 1012 s).closed = true := by
    unfold Writer.close; rw [hc]; simp
  have : wstateB (Writer.close 1012 s) =
      (true, (((Writer.close 1012 s).rem : Int), ((Writer.close 1012 s).file.data, ((Writer.close 1012 s).file.pos : Int)))) := by
    unfold wstateB; rw [hcl]
  rw [this]
  exact srcFinsB_closed fuel fs _ _ _

/-! ### the blocked reader -/

/-- the model's step over the unblocker, as the translated method would report it -/
def stepSignalB (s : Step Unblock.St) : Rt.Signal (Bytes × (Int × (Bytes × (Bytes × Bytes)))) :=
  match s with
  | .record r st => .ret (r, ((st.recno : Int), (st.last.getD [], (st.src.buf, st.src.rest))))
  | .done .eof => .stop
  | .done (.dataError n ctx) => .libError (n : Int) ctx
  | .done _ => .stop

theorem needOf_pos (n : Nat) (h : n ≠ 0) : needOf n = some n := by simp [needOf, h]

theorem read_rest_le (s : Unblock.St) (need : Option Nat) : (Unblock.read 1012 s need).2.rest.length ≤ s.rest.length := by
  unfold Unblock.read
  cases need <;> exact refill_rest_le _ _ _ _

/-- `VbsReader.__next__` over an Unblock1014 object (enough fuel for the unblocker's refill loop) -/
theorem readerB_next_eq (fuel : Nat) (recno : Nat) (last : Option Bytes) (buf rest : Bytes) (hf : rest.length < fuel) :
    Src.VbsReaderB_next fuel (recno : Int) (last.getD []) buf rest =
      .ok (stepSignalB (next (unblockSrc 1012) Gen.maxVbsRecordLength ⟨⟨rest, buf⟩, recno, last⟩)) := by
  unfold Src.VbsReaderB_next next unblockSrc
  have h4 := unblock_read_eq fuel buf rest 4 hf
  rw [show ((4 : Nat) : Int) = (4 : Int) from rfl] at h4
  rw [h4, bind_ok_eq, needOf_pos 4 (by decide)]
  simp only []
  generalize hh : Unblock.read 1012 ⟨rest, buf⟩ (some 4) = h
  have hle : h.2.rest.length ≤ rest.length := by
    have := read_rest_le ⟨rest, buf⟩ (some 4)
    rw [hh] at this; exact this
  by_cases hl : h.1.length = 4
  · have h1 : (Rt.len h.1 != (4 : Int)) = false := by
      unfold Rt.len; rw [hl]; rfl
    simp only [h1, Bool.false_eq_true, if_false, hl, ne_eq, not_true_eq_false, Rt.unpackI, if_true, Outcome.bind, be32_eq]
    generalize be32dec h.1 = n
    have hneg : decide (((n : Nat) : Int) < 0) = false := by simp
    by_cases hmax : Gen.maxVbsRecordLength < n
    · have hgt : decide (((n : Nat) : Int) > ((Gen.maxVbsRecordLength : Nat) : Int)) = true := by simp; omega
      simp only [hneg, hgt, Bool.false_or, if_true, hmax, stepSignalB]
    · have hgt : decide (((n : Nat) : Int) > ((Gen.maxVbsRecordLength : Nat) : Int)) = false := by simp; omega
      simp only [hneg, hgt, Bool.false_or, Bool.false_eq_true, if_false, hmax]
      by_cases h0 : n = 0
      · subst h0
        simp [stepSignalB]
      · have hz : (((n : Nat) : Int) == (0 : Int)) = false := by simp; omega
        simp only [hz, Bool.false_eq_true, if_false, h0]
        have hr := unblock_read_eq fuel h.2.buf h.2.rest n (by omega)
        rw [hr, needOf_pos n h0]
        simp only []
        generalize Unblock.read 1012 ⟨h.2.rest, h.2.buf⟩ (some n) = r
        have hst : (⟨h.2.rest, h.2.buf⟩ : Unblock.St) = h.2 := rfl
        by_cases hlen : r.1.length = n
        · have hl2 : (Rt.len r.1 != ((n : Nat) : Int)) = false := by
            unfold Rt.len; rw [hlen]; simp
          simp only [hl2, Bool.false_eq_true, if_false, hlen, not_true_eq_false, stepSignalB, Option.getD_some]
          rfl
        · have hl2 : (Rt.len r.1 != ((n : Nat) : Int)) = true := by
            simp only [Rt.len, bne_iff_ne, ne_eq]; omega
          simp only [hl2, if_true, hlen, not_false_eq_true, stepSignalB]
  · have h1 : (Rt.len h.1 != (4 : Int)) = true := by
      simp only [Rt.len, bne_iff_ne, ne_eq]; omega
    simp only [h1, if_true, hl, ne_eq, not_false_eq_true, stepSignalB]

/-! ### iterating the translated methods -/

/-- `for r in recs: writer.write(r)` with the translated blocked writer -/
def srcWriteAllB (fuel : Nat) : Bool × (Int × (Bytes × Int)) → List Bytes → Outcome (Bool × (Int × (Bytes × Int)))
  | st, [] => .ok st
  | st, r :: rs => (Src.VbsWriterB_write fuel st.1 st.2.1 st.2.2.1 st.2.2.2 r).bind (fun st' => srcWriteAllB fuel st' rs)

theorem src_write_allB_eq (fuel : Nat) (hf4 : 4 < fuel) (recs : List Bytes)
    (hr : ∀ r ∈ recs, r.length < 4294967296 ∧ r.length < fuel) :
    ∀ (s : Writer.St), s.blocked = true → AtEnd s →
      srcWriteAllB fuel (wstateB s) recs = .ok (wstateB (recs.foldl (Writer.write 1012) s)) ∧
      AtEnd (recs.foldl (Writer.write 1012) s) ∧ (recs.foldl (Writer.write 1012) s).blocked = true ∧
      (recs.foldl (Writer.write 1012) s).closed = s.closed := by
  induction recs with
  | nil => intro s hb he; exact ⟨rfl, he, hb, rfl⟩
  | cons r rs ih =>
    intro s hb he
    obtain ⟨h1, he1, hb1, hc1⟩ := writerB_write_eq fuel s hb he r (hr r (by simp)).1 (hr r (by simp)).2 hf4
    obtain ⟨h2, he2, hb2, hc2⟩ := ih (fun x hx => hr x (by simp [hx])) _ hb1 he1
    refine ⟨?_, he2, hb2, hc2.trans hc1⟩
    show (Src.VbsWriterB_write fuel s.closed (s.rem : Int) s.file.data (s.file.pos : Int) r).bind _ = _
    rw [h1, bind_ok_eq]
    exact h2

/-- `list(reader)` with the translated blocked `__next__` (`ffuel`: fuel of the unblocker's refill loop) -/
def srcReadAllB (ffuel : Nat) : Nat → Int × (Bytes × (Bytes × Bytes)) → List Bytes × End
  | 0, _ => ([], .fuel)
  | fuel + 1, st =>
    match Src.VbsReaderB_next ffuel st.1 st.2.1 st.2.2.1 st.2.2.2 with
    | .ok (.ret r) => let x := srcReadAllB ffuel fuel r.2; (r.1 :: x.1, x.2)
    | .ok .stop => ([], .eof)
    | .ok (.libError n ctx) => ([], .dataError n.toNat ctx)
    | .dataError => ([], .escape .other)
    | .escape k => ([], .escape k)
    | .diverge => ([], .diverge)

theorem next_rest_le (maxLen recno : Nat) (last : Option Bytes) (src : Unblock.St) (r : Bytes) (st : RState Unblock.St)
    (h : next (unblockSrc 1012) maxLen ⟨src, recno, last⟩ = .record r st) : st.src.rest.length ≤ src.rest.length := by
  unfold next unblockSrc at h
  simp only [] at h
  split at h
  · cases h
  · split at h
    · cases h
    · split at h
      · cases h
      · split at h
        · cases h
        · injection h with h1 h2
          subst h2
          have a := read_rest_le src (some 4)
          have b := read_rest_le (Unblock.read 1012 src (some 4)).2 (some (be32dec (Unblock.read 1012 src (some 4)).1))
          exact Nat.le_trans b a

theorem src_read_allB_eq (ffuel : Nat) : ∀ (fuel recno : Nat) (last : Option Bytes) (buf rest : Bytes),
    rest.length < ffuel →
    srcReadAllB ffuel fuel ((recno : Int), (last.getD [], (buf, rest))) =
      readAll (unblockSrc 1012) Gen.maxVbsRecordLength fuel ⟨⟨rest, buf⟩, recno, last⟩ := by
  intro fuel
  induction fuel with
  | zero => intros; rfl
  | succ fuel ih =>
    intro recno last buf rest hf
    rw [srcReadAllB, readAll]
    simp only [readerB_next_eq ffuel recno last buf rest hf]
    cases hs : next (unblockSrc 1012) Gen.maxVbsRecordLength ⟨⟨rest, buf⟩, recno, last⟩ with
    | record r st =>
      simp only [stepSignalB]
      have hle := next_rest_le _ _ _ _ _ _ hs
      have := ih st.recno st.last st.src.buf st.src.rest (by simp only [] at hle; omega)
      rw [this]
    | done e =>
      cases e with
      | eof => simp [stepSignalB]
      | dataError n ctx => simp [stepSignalB]
      | escape k => exfalso; unfold next at hs; simp only [] at hs; split at hs <;> (try split at hs) <;> (try split at hs) <;> (try split at hs) <;> simp at hs
      | diverge => exfalso; unfold next at hs; simp only [] at hs; split at hs <;> (try split at hs) <;> (try split at hs) <;> (try split at hs) <;> simp at hs
      | fuel => exfalso; unfold next at hs; simp only [] at hs; split at hs <;> (try split at hs) <;> (try split at hs) <;> (try split at hs) <;> simp at hs

/-- C03 for the code as translated, BLOCKED writer AND reader: write the records with the translated `VbsWriter.write`
    over a translated `Block1014`, finalise with the translated `close`, and iterate the translated `VbsReader.__next__`
    over a translated `Unblock1014` — the records come back unchanged, in order, then end of data.  Nothing in this
    statement mentions the hand-written models: they are only the bridge of the proof. -/
theorem C03_source_roundtrip_blocked (recs : List Bytes) (hmax : Gen.maxVbsRecordLength < 4294967296)
    (h : ∀ r ∈ recs, 0 < r.length ∧ r.length ≤ Gen.maxVbsRecordLength)
    (fuel : Nat) (hf4 : 4 < fuel) (hfuel : ∀ r ∈ recs, r.length < fuel) :
    ∃ st1 st2, srcWriteAllB fuel (false, ((1012 : Int), ([], (0 : Int)))) recs = .ok st1 ∧
      Src.VbsWriterB_close fuel st1.1 st1.2.1 st1.2.2.1 st1.2.2.2 = .ok st2 ∧
      srcReadAllB (st2.2.2.1.length + 1) (st2.2.2.1.length + 1) ((1 : Int), ([], ([], st2.2.2.1))) = (recs, .eof) := by
  have hinit : wstateB (Writer.init 1012 true) = (false, ((1012 : Int), ([], (0 : Int)))) := rfl
  have hb0 : (Writer.init 1012 true).blocked = true := rfl
  have he0 : AtEnd (Writer.init 1012 true) := rfl
  obtain ⟨hw, he1, hb1, hc1⟩ := src_write_allB_eq fuel hf4 recs
    (fun r hr => ⟨by have := (h r hr).2; omega, hfuel r hr⟩) (Writer.init 1012 true) hb0 he0
  rw [hinit] at hw
  have hc := writerB_close_eq fuel (recs.foldl (Writer.write 1012) (Writer.init 1012 true)) hb1 he1 hc1 hf4
  refine ⟨wstateB (recs.foldl (Writer.write 1012) (Writer.init 1012 true)),
    wstateB (Writer.close 1012 (recs.foldl (Writer.write 1012) (Writer.init 1012 true))), hw, hc, ?_⟩
  · have hfile : (wstateB (Writer.close 1012 (recs.foldl (Writer.write 1012) (Writer.init 1012 true)))).2.2.1 =
        Writer.listToBytes 1012 true recs := rfl
    rw [hfile]
    have h1 := src_read_allB_eq ((Writer.listToBytes 1012 true recs).length + 1)
      ((Writer.listToBytes 1012 true recs).length + 1) 1 none [] (Writer.listToBytes 1012 true recs) (by omega)
    simp only [Option.getD_none] at h1
    rw [show ((1 : Nat) : Int) = (1 : Int) from rfl] at h1
    rw [h1]
    have := Props.C03.C03_roundtrip_blocked Gen.maxVbsRecordLength hmax recs h
    simpa [vbsBytesToList, Vbs.init] using this

end Cardutil.SrcTie
