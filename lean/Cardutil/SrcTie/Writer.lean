import Cardutil.SrcTie.Block
import Cardutil.Model.Vbs
import Cardutil.Props.C11
/-
  Source tie for `mciipm.VbsWriter.write`, `.close` and `.__exit__` on an unblocked in-memory file
  (C03, C11): the state is (`_finalised`, file data, file position); `out_file.write(e)` writes at
  the position, `out_file.seek(n)` sets it.  The translated methods ARE the model's `Writer.write`
  and `Writer.close`.
-/
namespace Cardutil.SrcTie

open Cardutil Cardutil.Py

theorem packI_eq (n : Nat) (h : n < 4294967296) : Rt.packI (n : Int) = .ok (be32 n) := by
  unfold Rt.packI be32
  have : (0 ≤ (n : Int) ∧ (n : Int) < 4294967296) := ⟨by omega, by omega⟩
  rw [if_pos this]
  have e : ((n : Int)).toNat = n := by omega
  rw [e]

theorem fwrite_eq (f : File) (b : Bytes) :
    Rt.fwrite f.data (f.pos : Int) b = ((f.write b).data, ((f.write b).pos : Int)) := by
  unfold Rt.fwrite File.write
  have e : ((f.pos : Int)).toNat = f.pos := by omega
  have e2 : ((f.pos + b.length : Nat) : Int) = (f.pos : Int) + (b.length : Int) := by omega
  simp only [e, e2]

/-- the unblocked writer state of the model, as the translated methods see it -/
def wstate (s : Writer.St) : Bool × (Bytes × Int) := (s.closed, (s.file.data, (s.file.pos : Int)))

theorem model_write_unblocked (s : Writer.St) (hb : s.blocked = false) (r : Bytes) :
    Writer.write 1012 s r = { s with file := (s.file.write (be32 r.length)).write r } := by
  simp [Writer.write, Writer.rawWrite, hb]

theorem writer_write_unfold (fin : Bool) (data : Bytes) (pos : Int) (r : Bytes) :
    Src.VbsWriter_write fin data pos r =
      Outcome.bind (Rt.packI (Rt.len r)) (fun t1 =>
        .ok (fin, Rt.fwrite (Rt.fwrite data pos t1).1 (Rt.fwrite data pos t1).2 r)) := rfl

/-- `VbsWriter.write(record)` (records below 2^32 bytes) -/
theorem writer_write_eq (s : Writer.St) (hb : s.blocked = false) (r : Bytes) (hr : r.length < 4294967296) :
    Src.VbsWriter_write s.closed s.file.data (s.file.pos : Int) r = .ok (wstate (Writer.write 1012 s r)) := by
  rw [model_write_unblocked s hb r, writer_write_unfold]
  have hp : Rt.packI (Rt.len r) = .ok (be32 r.length) := packI_eq r.length hr
  rw [hp]
  generalize be32 r.length = hdr
  show Outcome.ok _ = _
  rw [fwrite_eq s.file hdr]
  simp only []
  rw [fwrite_eq (s.file.write hdr) r]
  rfl

theorem writer_close_unfold (fin : Bool) (data : Bytes) (pos : Int) :
    Src.VbsWriter_close fin data pos =
      if fin then .ok (fin, (data, pos))
      else Outcome.bind (Rt.packI (0 : Int)) (fun t1 => .ok (true, ((Rt.fwrite data pos t1).1, (0 : Int)))) := rfl

theorem model_close_unblocked (s : Writer.St) (hb : s.blocked = false) (hc : s.closed = false) :
    Writer.close 1012 s = { s with file := (s.file.write (be32 0)).seek0, closed := true } := by
  simp [Writer.close, Writer.rawWrite, hb, hc]

/-- `VbsWriter.close()` -/
theorem writer_close_eq (s : Writer.St) (hb : s.blocked = false) :
    Src.VbsWriter_close s.closed s.file.data (s.file.pos : Int) = .ok (wstate (Writer.close 1012 s)) := by
  rw [writer_close_unfold]
  by_cases hc : s.closed = true
  · rw [if_pos hc]
    have : Writer.close 1012 s = s := by simp [Writer.close, hc]
    rw [this]; rfl
  · have hc' : s.closed = false := by simpa using hc
    rw [if_neg hc, model_close_unblocked s hb hc']
    have hp : Rt.packI (0 : Int) = .ok (be32 0) := packI_eq 0 (by decide)
    rw [hp]
    generalize be32 0 = hdr
    show Outcome.ok _ = _
    rw [fwrite_eq s.file hdr]
    rfl

/-- leaving the `with` block is `close()` -/
theorem writer_exit_eq (s : Writer.St) (hb : s.blocked = false) :
    Src.VbsWriter_exit s.closed s.file.data (s.file.pos : Int) () () () = .ok (wstate (Writer.close 1012 s)) := by
  unfold Src.VbsWriter_exit
  rw [writer_close_eq s hb]
  rfl

/-! ### a whole history of translated calls (unblocked writer) -/

/-- `close()` or leaving the `with` block, with the translated methods -/
def srcFin (st : Bool × (Bytes × Int)) (f : Writer.Fin) : Outcome (Bool × (Bytes × Int)) :=
  match f with
  | .close => Src.VbsWriter_close st.1 st.2.1 st.2.2
  | .exit => Src.VbsWriter_exit st.1 st.2.1 st.2.2 () () ()

def srcFins : Bool × (Bytes × Int) → List Writer.Fin → Outcome (Bool × (Bytes × Int))
  | st, [] => .ok st
  | st, f :: fs => (srcFin st f).bind (fun st' => srcFins st' fs)

theorem close_keeps_unblocked (s : Writer.St) (hb : s.blocked = false) : (Writer.close 1012 s).blocked = false := by
  unfold Writer.close
  by_cases hc : s.closed = true
  · simp [hc, hb]
  · simp [hc, hb, Writer.rawWrite]

theorem src_fins_eq (fs : List Writer.Fin) : ∀ (s : Writer.St), s.blocked = false →
    srcFins (wstate s) fs = .ok (wstate (fs.foldl (Writer.fin 1012) s)) := by
  induction fs with
  | nil => intro s _; rfl
  | cons f fs ih =>
    intro s hb
    have hstep : srcFin (wstate s) f = .ok (wstate (Writer.close 1012 s)) := by
      cases f
      · exact writer_close_eq s hb
      · exact writer_exit_eq s hb
    simp only [srcFins, hstep, Outcome.bind, List.foldl_cons, Writer.fin]
    exact ih _ (close_keeps_unblocked s hb)

/-- C11 for the code as translated (unblocked writer): after any records, ANY non-empty history of
    translated `close()` / `__exit__` calls leaves exactly the state a single `close()` leaves —
    a second finalisation writes nothing -/
theorem C11_source (s : Writer.St) (hb : s.blocked = false) (f : Writer.Fin) (fs : List Writer.Fin) :
    srcFins (wstate s) (f :: fs) = srcFins (wstate s) [.close] := by
  rw [src_fins_eq (f :: fs) s hb, src_fins_eq [.close] s hb]
  congr 2
  rw [Writer.fins_eq_close, Writer.fins_eq_close]

end Cardutil.SrcTie
