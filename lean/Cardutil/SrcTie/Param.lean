import Cardutil.SrcTie.Base
import Cardutil.Gen.Src
import Cardutil.Model.Param
import Cardutil.Props.C18
/-
  Source tie for `mciipm.IpmParamReader._get_param_field` (C18): the column slicing of the parameter reader,
  translated from the current source (the reader's `expanded` flag, its decoder, its table index and the table
  layouts are parameters; the class-level `slice(a, b)` constants are read from the class body).
-/
namespace Cardutil.SrcTie

open Cardutil Cardutil.Py

/-- `bytes.decode(encoding)` of a codec, as the translated code calls it -/
def decoderOfCodec (c : Codec) : Bytes → Outcome Text := fun b =>
  match c.decode b with
  | some t => .ok t
  | none => .escape .unicodeError

/-- Python's `l[a:b]` with non-negative literal bounds is the model's `slice` -/
theorem slice_nn {α} (l : List α) (a b : Nat) :
    Rt.slice l (some ((a : Nat) : Int)) (some ((b : Nat) : Int)) = Py.slice l a b := by
  simp only [Rt.slice, bound_nonneg _ _ (Int.natCast_nonneg a), bound_nonneg _ _ (Int.natCast_nonneg b), Py.slice,
    Int.toNat_natCast]
  have ht : List.take (min b l.length) l = List.take b l := by
    by_cases hb : b ≤ l.length
    · rw [Nat.min_eq_left hb]
    · rw [Nat.min_eq_right (by omega), List.take_of_length_le (Nat.le_refl _), List.take_of_length_le (by omega)]
  rw [ht]
  by_cases ha : a ≤ l.length
  · rw [Nat.min_eq_left ha]
  · have hl : (List.take b l).length ≤ l.length := by simp; omega
    rw [Nat.min_eq_right (by omega), List.drop_of_length_le hl, List.drop_of_length_le (by omega)]

/-- the layout entry of a column: `param_config[table][field]` holds `start` and `end` -/
def HasColumn (cfg : Rt.SDict (Rt.SDict (Rt.SDict Int))) (table field : Text) (s e : Nat) : Prop :=
  ∃ layout cols, Rt.dictGet cfg table = .ok layout ∧ Rt.dictGet layout field = .ok cols ∧
    Rt.dictGet cols [115, 116, 97, 114, 116] = .ok ((s : Nat) : Int) ∧ Rt.dictGet cols [101, 110, 100] = .ok ((e : Nat) : Int)

theorem decodeSlice_eq (c : Codec) (r : Bytes) (a b : Nat) :
    decoderOfCodec c (Py.slice r a b) = Param.decodeSlice c r a b := by
  unfold decoderOfCodec Param.decodeSlice
  cases c.decode (Py.slice r a b) <;> rfl

/-- EXPANDED rows: the translated method returns the decoded characters `start .. end` of the row -/
theorem get_param_field_expanded (c : Codec) (index : Rt.SDict Text) (cfg : Rt.SDict (Rt.SDict (Rt.SDict Int))) (tid : Text)
    (record : Bytes) (table field : Text) (s e : Nat)
    (hid : c.decode (Py.slice record 11 19) = some table) (hcol : HasColumn cfg table field s e) :
    Src.IpmParamReaderget_param_field true (decoderOfCodec c) index cfg tid record field = Param.decodeSlice c record s e := by
  obtain ⟨layout, cols, h1, h2, h3, h4⟩ := hcol
  unfold Src.IpmParamReaderget_param_field
  have e1 : Rt.slice record (some (11 : Int)) (some (19 : Int)) = Py.slice record 11 19 := slice_nn record 11 19
  have hd : decoderOfCodec c (Py.slice record 11 19) = .ok table := by unfold decoderOfCodec; rw [hid]
  simp only [if_true, e1, hd, bind_ok_eq, h1, h2, h3, h4, Int.add_zero, slice_nn, decodeSlice_eq, bind_ok_right]

/-- COMPRESSED rows: the table comes from the index by the row's sub-id, and the column positions are those of the
    expanded layout moved 8 to the left -/
theorem get_param_field_compressed (c : Codec) (index : Rt.SDict Text) (cfg : Rt.SDict (Rt.SDict (Rt.SDict Int))) (tid : Text)
    (record : Bytes) (sub table field : Text) (s e : Nat)
    (hsub : c.decode (Py.slice record 8 11) = some sub) (hix : Rt.dictGetOpt index sub = some table)
    (hcol : HasColumn cfg table field s e) (h8 : 8 ≤ s) (hse : s ≤ e) :
    Src.IpmParamReaderget_param_field false (decoderOfCodec c) index cfg tid record field =
      Param.decodeSlice c record (s - 8) (e - 8) := by
  obtain ⟨layout, cols, h1, h2, h3, h4⟩ := hcol
  unfold Src.IpmParamReaderget_param_field
  have e1 : Rt.slice record (some (8 : Int)) (some (11 : Int)) = Py.slice record 8 11 := slice_nn record 8 11
  have hd : decoderOfCodec c (Py.slice record 8 11) = .ok sub := by unfold decoderOfCodec; rw [hsub]
  have hs : ((s : Nat) : Int) + (-(8 : Int)) = (((s - 8 : Nat)) : Int) := by omega
  have he : ((e : Nat) : Int) + (-(8 : Int)) = (((e - 8 : Nat)) : Int) := by omega
  simp only [Bool.false_eq_true, if_false, e1, hd, bind_ok_eq, hix, Rt.dictGetO, h1, h2, h3, h4, hs, he, slice_nn,
    decodeSlice_eq, bind_ok_right]

/-- a compressed row whose sub-id the index does not know has no layout to slice by: KeyError (the reader only calls
    the method for rows it has already matched to the requested table) -/
theorem get_param_field_unknown_subid (c : Codec) (index : Rt.SDict Text) (cfg : Rt.SDict (Rt.SDict (Rt.SDict Int))) (tid : Text)
    (record : Bytes) (sub field : Text)
    (hsub : c.decode (Py.slice record 8 11) = some sub) (hix : Rt.dictGetOpt index sub = none) :
    Src.IpmParamReaderget_param_field false (decoderOfCodec c) index cfg tid record field = .escape .keyError := by
  unfold Src.IpmParamReaderget_param_field
  have e1 : Rt.slice record (some (8 : Int)) (some (11 : Int)) = Py.slice record 8 11 := slice_nn record 8 11
  have hd : decoderOfCodec c (Py.slice record 8 11) = .ok sub := by unfold decoderOfCodec; rw [hsub]
  simp only [Bool.false_eq_true, if_false, e1, hd, bind_ok_eq, hix, Rt.dictGetO]
  rfl

/-- C18 for the column slicing as translated: the compressed and the expanded representation of the same row body give
    the same column text (the translated method on both, through the model's `C18_compressed_eq_expanded`) -/
theorem C18_source_compressed_eq_expanded (c : Codec) (index : Rt.SDict Text) (cfg : Rt.SDict (Rt.SDict (Rt.SDict Int))) (tid : Text)
    (hdrC hdrX body : Bytes) (sub table field : Text) (s e : Nat)
    (hC : hdrC.length = 11) (hX : hdrX.length = 19)
    (hsub : c.decode (Py.slice (hdrC ++ body) 8 11) = some sub) (hix : Rt.dictGetOpt index sub = some table)
    (hid : c.decode (Py.slice (hdrX ++ body) 11 19) = some table)
    (hcol : HasColumn cfg table field s e) (h19 : 19 ≤ s) (hse : s ≤ e) :
    Src.IpmParamReaderget_param_field false (decoderOfCodec c) index cfg tid (hdrC ++ body) field =
      Src.IpmParamReaderget_param_field true (decoderOfCodec c) index cfg tid (hdrX ++ body) field := by
  rw [get_param_field_compressed c index cfg tid _ sub table field s e hsub hix hcol (by omega) hse,
    get_param_field_expanded c index cfg tid _ table field s e hid hcol]
  unfold Param.decodeSlice
  rw [Props.C18.C18_compressed_eq_expanded hdrC hdrX body hC hX s e h19]

end Cardutil.SrcTie
