import Cardutil.SrcTie.Base
import Cardutil.Gen.Src
import Cardutil.Model.Block1014
import Cardutil.Lemmas.Block
import Cardutil.Props.C04
/-
  Source tie for `mciipm.Block1014.write` and `Block1014.finalise` (C04).  A method is translated
  with `self` made explicit: the fields it uses (`remaining_chars`) and the bytes it hands to the
  wrapped file object's `write` (appended to `self_out`); the translated method returns the new
  state.  The theorems say the translated methods ARE the model's `Block.write` / `Block.finalise`.
-/
namespace Cardutil.SrcTie

open Cardutil Cardutil.Py Cardutil.Block

theorem slice_from {α} (l : List α) (i : Int) (h : 0 ≤ i) : Rt.slice l (some i) none = l.drop i.toNat := by
  simp only [Rt.slice, bound_nonneg _ _ h, List.take_length]
  by_cases hl : i.toNat ≤ l.length
  · rw [Nat.min_eq_left hl]
  · rw [Nat.min_eq_right (by omega), List.drop_of_length_le (Nat.le_refl _), List.drop_of_length_le (by omega)]

theorem pp_eq : Rt.mulSeq [64] (2 : Int) = PP := by rw [mulSeq_single]; rfl

def wCond (st : Bytes × Bytes) : Bool := decide (Rt.len st.2 > (1012 : Int))

def wBody (st : Bytes × Bytes) : Outcome (Bool × (Bytes × Bytes)) :=
  .ok (true, (st.1 ++ Rt.slice st.2 none (some (1012 : Int)) ++ Rt.mulSeq [64] (2 : Int),
              Rt.slice st.2 (some (1012 : Int)) none))

/-- the inner `while` of `Block1014.write` is the model's `wloop` -/
theorem write_loop : ∀ (fuel : Nat) (o b : Bytes), b.length < fuel →
    Rt.whileO fuel wCond wBody (o, b) = .ok (o ++ (wloop 1012 b).1, (wloop 1012 b).2) := by
  intro fuel
  induction fuel with
  | zero => intro o b h; omega
  | succ fuel ih =>
    intro o b hf
    rw [Rt.whileO, wloop]
    by_cases hc : 1012 < b.length
    · have hcond : wCond (o, b) = true := by simp [wCond, Rt.len]; omega
      have hm : (1012 < b.length ∧ 0 < 1012) := ⟨hc, by decide⟩
      rw [if_pos hcond, if_pos hm]
      simp only [wBody, Outcome.bind, if_true]
      rw [slice_to _ _ (by decide), slice_from _ _ (by decide), pp_eq]
      have h1 : (1012 : Int).toNat = 1012 := rfl
      rw [h1, ih _ _ (by simp [List.length_drop]; omega)]
      simp [List.append_assoc]
    · have hcond : wCond (o, b) = false := by simp [wCond, Rt.len]; omega
      have hm : ¬ (1012 < b.length ∧ 0 < 1012) := fun h => hc h.1
      rw [hcond, if_neg hm]
      simp

theorem block_write_unfold (fuel : Nat) (rem : Int) (out w : Bytes) :
    Src.Block1014_write fuel rem out w =
      if decide (Rt.len w < rem) then .ok (rem - Rt.len w, out ++ w)
      else (Rt.whileO fuel wCond wBody
              (out ++ Rt.slice w none (some rem) ++ Rt.mulSeq [64] (2 : Int), Rt.slice w (some rem) none)).bind
            (fun st => .ok ((1012 : Int) - Rt.len st.2, st.1 ++ st.2)) := rfl

/-- `Block1014.write`: new `remaining_chars` and the bytes handed to the file are the model's -/
theorem block_write_eq (fuel : Nat) (rem : Nat) (out w : Bytes) (hf : w.length < fuel) :
    Src.Block1014_write fuel (rem : Int) out w =
      .ok ((((write 1012 rem w).2 : Nat) : Int), out ++ (write 1012 rem w).1) := by
  rw [block_write_unfold]
  unfold write
  by_cases h : w.length < rem
  · have hd : decide (Rt.len w < (rem : Int)) = true := by simp [Rt.len]; omega
    rw [hd, if_pos h]
    simp only [if_true, Rt.len]
    congr 2
    omega
  · have hd : decide (Rt.len w < (rem : Int)) = false := by simp [Rt.len]; omega
    rw [hd, if_neg h]
    simp only [Bool.false_eq_true, if_false]
    rw [slice_to _ _ (by omega), slice_from _ _ (by omega), pp_eq]
    have h1 : ((rem : Int)).toNat = rem := by omega
    rw [h1, write_loop fuel _ _ (by simp [List.length_drop]; omega)]
    simp only [Outcome.bind, Rt.len]
    obtain ⟨_, _, _, _, _, hle, _⟩ := wloop_spec (P := 1012) (by decide) (w.drop rem)
    congr 2
    · omega
    · simp [List.append_assoc]

/-- `Block1014.finalise` -/
theorem block_finalise_eq (rem : Nat) (out : Bytes) :
    Src.Block1014_finalise (rem : Int) out =
      ((((finalise 1012 rem).2 : Nat) : Int), out ++ (finalise 1012 rem).1) := by
  unfold Src.Block1014_finalise finalise
  simp only []
  rw [mulSeq_single]
  have : ((rem : Int) + 2).toNat = rem + 2 := by omega
  rw [this]
  rfl

/-! ### a whole history of translated calls -/

/-- `for w in ws: blocker.write(w)` with the translated method -/
def srcWrites (fuel : Nat) : Int × Bytes → List Bytes → Outcome (Int × Bytes)
  | st, [] => .ok st
  | st, w :: ws => (Src.Block1014_write fuel st.1 st.2 w).bind (fun st' => srcWrites fuel st' ws)

theorem src_writes_eq (fuel : Nat) (ws : List Bytes) (hf : ∀ w ∈ ws, w.length < fuel) :
    ∀ (rem : Nat) (out : Bytes),
      srcWrites fuel ((rem : Int), out) ws =
        .ok ((((writes 1012 rem ws).2 : Nat) : Int), out ++ (writes 1012 rem ws).1) := by
  induction ws with
  | nil => intro rem out; simp [srcWrites, writes]
  | cons w ws ih =>
    intro rem out
    simp only [srcWrites, writes]
    rw [block_write_eq fuel rem out w (hf w (by simp))]
    simp only [Outcome.bind]
    rw [ih (fun x hx => hf x (by simp [hx]))]
    simp [List.append_assoc]

/-- C04 for the code as translated: ANY history of translated `write` calls on a fresh blocker
    followed by the translated `finalise` hands the wrapped file exactly `stream 1012 ws` — a whole
    number of 1014-byte blocks with correct trailers whose payloads are the data written, then fill -/
theorem C04_source (fuel : Nat) (ws : List Bytes) (hf : ∀ w ∈ ws, w.length < fuel) :
    ∃ st, srcWrites fuel ((1012 : Int), []) ws = .ok st ∧
      (Src.Block1014_finalise st.1 st.2).2 = stream 1012 ws ∧
      (stream 1012 ws).length % 1014 = 0 ∧ wellBlocked 1012 (stream 1012 ws) = true ∧
      ∃ k, k < 2024 ∧ payloads 1012 (stream 1012 ws) = ws.flatten ++ List.replicate k padByte := by
  have h := src_writes_eq fuel ws hf 1012 []
  refine ⟨_, h, ?_, Props.C04.C04_whole_blocks ws, Props.C04.C04_trailers ws, Props.C04.C04_payloads ws⟩
  simp only [List.nil_append]
  rw [block_finalise_eq]
  rfl

end Cardutil.SrcTie
