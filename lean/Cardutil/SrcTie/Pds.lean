import Cardutil.SrcTie.Base
import Cardutil.Gen.Src
import Cardutil.Model.Iso8583
import Cardutil.Props.C07
import Cardutil.Props.C12
/-
  Source tie for the PDS / ICC walkers and the PDS packer of `cardutil/iso8583.py`
  (`_pds_to_dict`, `_icc_to_dict`, `_pds_to_de`): the translated loops ARE the models
  `Iso.pdsToDict`, `Iso.iccToDict`, `Iso.pdsPack` (C07, C08, C12).  A translated `while` takes a
  fuel argument; the equalities hold for every amount of fuel, the model's own fuel included.
-/
namespace Cardutil.SrcTie

open Cardutil Cardutil.Py Cardutil.Iso

/-! ### `_pds_to_dict` -/

/-- the translated dictionary (keys 'PDS' + tag, text values) as the model's dictionary -/
def toDictP (d : Rt.SDict Text) : Dict := d.map (fun kv => (Key.pds (kv.1.drop 3), Val.str kv.2))

def AllPds (d : Rt.SDict Text) : Prop := ∀ kv ∈ d, ∃ tag, kv.1 = [80, 68, 83] ++ tag

theorem dictSet_pds (d : Rt.SDict Text) (tag v : Text) (h : AllPds d) :
    toDictP (Rt.dictSet d ([80, 68, 83] ++ tag) v) = Dict.set (toDictP d) (.pds tag) (.str v) ∧
    AllPds (Rt.dictSet d ([80, 68, 83] ++ tag) v) := by
  induction d with
  | nil =>
    refine ⟨by simp [toDictP, Rt.dictSet, Dict.set], ?_⟩
    intro kv hkv
    simp [Rt.dictSet] at hkv
    exact ⟨tag, by rw [hkv]; rfl⟩
  | cons kv rest ih =>
    obtain ⟨tag', hk⟩ := h kv (by simp)
    have hrest : AllPds rest := fun x hx => h x (by simp [hx])
    obtain ⟨ih1, ih2⟩ := ih hrest
    obtain ⟨k, v'⟩ := kv
    simp only at hk
    subst hk
    by_cases heq : tag' = tag
    · subst heq
      refine ⟨by simp [toDictP, Rt.dictSet, Dict.set], ?_⟩
      intro x hx
      simp only [Rt.dictSet, beq_self_eq_true, if_true, List.mem_cons] at hx
      rcases hx with rfl | hx
      · exact ⟨tag', rfl⟩
      · exact hrest x hx
    · have hne : (([80, 68, 83] ++ tag' : Text) == [80, 68, 83] ++ tag) = false := by
        simp [heq]
      have hne2 : (Key.pds tag' == Key.pds tag) = false := by simp [heq]
      refine ⟨?_, ?_⟩
      · simp only [Rt.dictSet, hne, Bool.false_eq_true, if_false, toDictP, List.map_cons, Dict.set]
        have : List.drop 3 ([80, 68, 83] ++ tag') = tag' := rfl
        rw [this, hne2]
        simp only [Bool.false_eq_true, if_false]
        congr 1
      · intro x hx
        simp only [Rt.dictSet, hne, Bool.false_eq_true, if_false, List.mem_cons] at hx
        rcases hx with rfl | hx
        · exact ⟨tag', rfl⟩
        · exact ih2 x hx

/-- the loop condition and body of the translated `_pds_to_dict`, named -/
def pdsCond (t : Text) (st : Rt.SDict Text × Int) : Bool := decide (st.2 < Rt.len t)

def pdsBody (t : Text) (st : Rt.SDict Text × Int) : Outcome (Bool × (Rt.SDict Text × Int)) :=
  Outcome.bind (Rt.intOfStr Gen.intClasses (Rt.slice t (some (st.2 + 4)) (some (st.2 + 7)))) (fun n =>
    if decide (n < 0) then .escape .valueError
    else .ok (true, (Rt.dictSet st.1 ([80, 68, 83] ++ Rt.slice t (some st.2) (some (st.2 + 4)))
                      (Rt.slice t (some (st.2 + 7)) (some (st.2 + 7 + n))), st.2 + (7 + n))))

theorem pds_to_dict_unfold (fuel : Nat) (t : Text) :
    Src._pds_to_dict fuel t = (Rt.whileO fuel (pdsCond t) (pdsBody t) ([], 0)).bind (fun st => .ok st.1) := rfl

theorem pds_loop (t : Text) : ∀ (fuel : Nat) (rv : Rt.SDict Text) (p : Nat), AllPds rv →
    (Rt.whileO fuel (pdsCond t) (pdsBody t) (rv, (p : Int))).bind (fun st => .ok (toDictP st.1)) =
      pdsWalk Gen.intClasses fuel (t.drop p) (toDictP rv) := by
  intro fuel
  induction fuel with
  | zero => intros; rfl
  | succ fuel ih =>
    intro rv p hrv
    rw [Rt.whileO, pdsWalk]
    by_cases hc : p < t.length
    · have hcond : pdsCond t (rv, (p : Int)) = true := by simp [pdsCond, Rt.len]; omega
      have hne : (t.drop p).isEmpty = false := by
        cases hd : t.drop p with
        | nil => have := congrArg List.length hd; simp at this; omega
        | cons _ _ => rfl
      rw [if_pos hcond, hne]
      simp only [Bool.false_eq_true, if_false]
      have hlen : Rt.slice t (some ((p : Int) + 4)) (some ((p : Int) + 7)) = ((t.drop p).drop 4).take 3 := by
        rw [show ((p : Int) + 4) = ((p + 4 : Nat) : Int) by omega, show ((p : Int) + 7) = ((p + 7 : Nat) : Int) by omega,
          slice_nat _ _ _ (by omega), List.drop_drop, show p + 7 - (p + 4) = 3 by omega]
      unfold pdsBody
      simp only [hlen, Rt.intOfStr]
      cases hi : pyInt Gen.intClasses (((t.drop p).drop 4).take 3) with
      | none => rfl
      | some i =>
        cases i with
        | negSucc k =>
          have : decide ((Int.negSucc k) < 0) = true := by simp [Int.negSucc_lt_zero]
          simp only [Outcome.bind, this, if_true]
        | ofNat n =>
          have hnn : decide ((Int.ofNat n) < 0) = false := by simp
          have htag : Rt.slice t (some (p : Int)) (some ((p : Int) + 4)) = (t.drop p).take 4 := by
            rw [show ((p : Int) + 4) = ((p + 4 : Nat) : Int) by omega, slice_nat _ _ _ (by omega),
              show p + 4 - p = 4 by omega]
          have hdat : Rt.slice t (some ((p : Int) + 7)) (some ((p : Int) + 7 + Int.ofNat n)) = ((t.drop p).drop 7).take n := by
            have hn : (Int.ofNat n) = (n : Int) := rfl
            rw [hn, show ((p : Int) + 7 + (n : Int)) = ((p + 7 + n : Nat) : Int) by omega,
              show ((p : Int) + 7) = ((p + 7 : Nat) : Int) by omega, slice_nat _ _ _ (by omega), List.drop_drop,
              show p + 7 + n - (p + 7) = n by omega]
          have hp' : ((p : Int) + (7 + Int.ofNat n)) = ((p + (7 + n) : Nat) : Int) := by
            have : (Int.ofNat n) = (n : Int) := rfl
            omega
          simp only [Outcome.bind, hnn, Bool.false_eq_true, if_false, htag, hdat, hp', if_true]
          obtain ⟨hd1, hd2⟩ := dictSet_pds rv ((t.drop p).take 4) (((t.drop p).drop 7).take n) hrv
          have := ih (Rt.dictSet rv ([80, 68, 83] ++ (t.drop p).take 4) (((t.drop p).drop 7).take n)) (p + (7 + n)) hd2
          rw [hd1, ← List.drop_drop] at this
          exact this
    · have hcond : pdsCond t (rv, (p : Int)) = false := by simp [pdsCond, Rt.len]; omega
      have he : (t.drop p).isEmpty = true := by
        rw [List.drop_of_length_le (by omega)]; rfl
      rw [hcond, he]
      rfl

/-- `_pds_to_dict`: for every amount of fuel the translated walk is the model's walk with that fuel;
    in particular with the model's own `len + 1` it is `pdsToDict`, which never diverges (C07) -/
theorem pds_to_dict_eq (fuel : Nat) (t : Text) :
    (Src._pds_to_dict fuel t).bind (fun d => .ok (toDictP d)) = pdsWalk Gen.intClasses fuel t [] := by
  rw [pds_to_dict_unfold]
  have := pds_loop t fuel [] 0 (by intro kv hkv; simp at hkv)
  simp only [List.drop_zero] at this
  have h0 : toDictP [] = [] := rfl
  rw [h0] at this
  rw [← this]
  have hz : (((0 : Nat) : Int)) = (0 : Int) := rfl
  rw [hz]
  cases Rt.whileO fuel (pdsCond t) (pdsBody t) ([], (0 : Int)) <;> rfl

theorem pds_to_dict_model (t : Text) :
    (Src._pds_to_dict (t.length + 1) t).bind (fun d => .ok (toDictP d)) = pdsToDict Gen.intClasses t :=
  pds_to_dict_eq _ t

/-! ### `_icc_to_dict` -/

def iccCond (b : Bytes) (st : Int × Rt.SDict Text) : Bool := decide (st.1 < Rt.len b)

/-- what the loop body does once the tag and the pointer behind it are known -/
def iccStep (b : Bytes) (tag : Bytes) (p : Int) (rv : Rt.SDict Text) : Outcome (Bool × (Int × Rt.SDict Text)) :=
  if Rt.hexlify tag == [48, 48] then .ok (false, (p, rv))
  else Outcome.bind (Rt.unpackB (Rt.slice b (some p) (some (p + 1)))) (fun n =>
    .ok (true, (p + (1 + n),
      Rt.dictSet rv ([84, 65, 71] ++ Rt.upperAscii (Rt.hexlify tag)) (Rt.hexlify (Rt.slice b (some (p + 1)) (some (p + n + 1)))))))

def iccBody (b : Bytes) (st : Int × Rt.SDict Text) : Outcome (Bool × (Int × Rt.SDict Text)) :=
  if List.contains [[159], [95]] (Rt.slice b (some st.1) (some (st.1 + 1))) then
    iccStep b (Rt.slice b (some st.1) (some (st.1 + 2))) (st.1 + 2) st.2
  else iccStep b (Rt.slice b (some st.1) (some (st.1 + 1))) (st.1 + 1) st.2

theorem icc_to_dict_unfold (fuel : Nat) (b : Bytes) :
    Src._icc_to_dict fuel b =
      (Rt.whileO fuel (iccCond b) (iccBody b) (0, [([73, 67, 67, 95, 68, 65, 84, 65], Rt.hexlify b)])).bind
        (fun st => .ok st.2) := rfl

/-- keys 'ICC_DATA' and 'TAG' + hex as the model's keys -/
def keyI (k : Text) : Key := if k == [73, 67, 67, 95, 68, 65, 84, 65] then .iccData else .tag (k.drop 3)

def toDictI (d : Rt.SDict Text) : Dict := d.map (fun kv => (keyI kv.1, Val.str kv.2))

def AllIcc (d : Rt.SDict Text) : Prop :=
  ∀ kv ∈ d, kv.1 = [73, 67, 67, 95, 68, 65, 84, 65] ∨ ∃ h, kv.1 = [84, 65, 71] ++ h

theorem keyI_tag (h : Text) : keyI ([84, 65, 71] ++ h) = .tag h := by
  simp [keyI]

theorem dictSet_icc (d : Rt.SDict Text) (h v : Text) (hd : AllIcc d) :
    toDictI (Rt.dictSet d ([84, 65, 71] ++ h) v) = Dict.set (toDictI d) (.tag h) (.str v) ∧
    AllIcc (Rt.dictSet d ([84, 65, 71] ++ h) v) := by
  induction d with
  | nil =>
    refine ⟨by simp [toDictI, Rt.dictSet, Dict.set, keyI], ?_⟩
    intro kv hkv
    simp [Rt.dictSet] at hkv
    exact Or.inr ⟨h, by rw [hkv]; rfl⟩
  | cons kv rest ih =>
    have hrest : AllIcc rest := fun x hx => hd x (by simp [hx])
    obtain ⟨ih1, ih2⟩ := ih hrest
    obtain ⟨k, v'⟩ := kv
    rcases hd (k, v') (by simp) with hk | ⟨h', hk⟩
    · simp only at hk
      subst hk
      have hne : (([73, 67, 67, 95, 68, 65, 84, 65] : Text) == [84, 65, 71] ++ h) = false := by simp
      refine ⟨?_, ?_⟩
      · simp only [Rt.dictSet, hne, Bool.false_eq_true, if_false, toDictI, List.map_cons, Dict.set]
        have hk1 : keyI [73, 67, 67, 95, 68, 65, 84, 65] = .iccData := by simp [keyI]
        rw [hk1]
        have : (Key.iccData == Key.tag h) = false := by simp
        simp only [this, Bool.false_eq_true, if_false]
        congr 1
      · intro x hx
        simp only [Rt.dictSet, hne, Bool.false_eq_true, if_false, List.mem_cons] at hx
        rcases hx with rfl | hx
        · exact Or.inl rfl
        · exact ih2 x hx
    · simp only at hk
      subst hk
      by_cases heq : h' = h
      · subst heq
        refine ⟨by simp [toDictI, Rt.dictSet, Dict.set, keyI], ?_⟩
        intro x hx
        simp only [Rt.dictSet, beq_self_eq_true, if_true, List.mem_cons] at hx
        rcases hx with rfl | hx
        · exact Or.inr ⟨h', rfl⟩
        · exact hrest x hx
      · have hne : (([84, 65, 71] ++ h' : Text) == [84, 65, 71] ++ h) = false := by simp [heq]
        have hne2 : (Key.tag h' == Key.tag h) = false := by simp [heq]
        refine ⟨?_, ?_⟩
        · simp only [Rt.dictSet, hne, Bool.false_eq_true, if_false, toDictI, List.map_cons, Dict.set, keyI_tag, hne2]
          congr 1
        · intro x hx
          simp only [Rt.dictSet, hne, Bool.false_eq_true, if_false, List.mem_cons] at hx
          rcases hx with rfl | hx
          · exact Or.inr ⟨h', rfl⟩
          · exact ih2 x hx

theorem upper_hexlify (b : Bytes) : Rt.upperAscii (Rt.hexlify b) = hexTextUpper b := by
  unfold Rt.upperAscii Rt.hexlify hexTextUpper
  induction b with
  | nil => rfl
  | cons x xs ih =>
    simp only [List.flatMap_cons, List.map_append, ih]
    congr 1
    have h1 : x / 16 % 16 < 16 := Nat.mod_lt _ (by decide)
    have h2 : x % 16 < 16 := Nat.mod_lt _ (by decide)
    generalize x / 16 % 16 = a at h1
    generalize x % 16 = c at h2
    simp only [List.map_cons, List.map_nil, Rt.hexDigitLower, hexUpperDigit]
    congr 1
    · split <;> split <;> omega
    · congr 1
      split <;> split <;> omega

theorem hexlify_zero_one (x : Nat) (hx : x < 256) : (Rt.hexlify [x] == [48, 48]) = ([x] == [0]) := by
  have h1 : x / 16 % 16 < 16 := Nat.mod_lt _ (by decide)
  have h2 : x % 16 < 16 := Nat.mod_lt _ (by decide)
  by_cases h0 : x = 0
  · subst h0; rfl
  · have hr : ([x] == [0]) = false := by simp [h0]
    rw [hr]
    simp only [Rt.hexlify, List.flatMap_cons, List.flatMap_nil, List.append_nil, Rt.hexDigitLower]
    have : ¬ (x / 16 % 16 = 0 ∧ x % 16 = 0) := by omega
    by_cases ha : x / 16 % 16 = 0
    · have hc : x % 16 ≠ 0 := fun h => this ⟨ha, h⟩
      split <;> split <;> simp <;> omega
    · split <;> split <;> simp <;> omega


theorem slice_one {α} (l : List α) (p : Nat) : Rt.slice l (some (p : Int)) (some ((p : Int) + 1)) = (l.drop p).take 1 := by
  rw [show ((p : Int) + 1) = ((p + 1 : Nat) : Int) by omega, slice_nat _ _ _ (by omega), show p + 1 - p = 1 by omega]

/-- one step of the source (tag known, pointer behind it at `q`) against the model's step -/
theorem icc_step (b : Bytes) (fuel : Nat) (tag : Bytes) (q : Nat) (rv : Rt.SDict Text) (hrv : AllIcc rv)
    (ih : ∀ (rv : Rt.SDict Text) (p : Nat), AllIcc rv →
      (Rt.whileO fuel (iccCond b) (iccBody b) ((p : Int), rv)).bind (fun st => .ok (toDictI st.2)) =
        iccWalk fuel (b.drop p) (toDictI rv))
    (hz : (Rt.hexlify tag == [48, 48]) = (tag == [0])) :
    ((iccStep b tag (q : Int) rv).bind (fun r =>
        if r.1 then Rt.whileO fuel (iccCond b) (iccBody b) r.2 else .ok r.2)).bind (fun st => .ok (toDictI st.2)) =
      if tag == [0] then .ok (toDictI rv)
      else match b.drop q with
        | [] => .escape .structError
        | len :: body => iccWalk fuel (body.drop len)
            (Dict.set (toDictI rv) (.tag (hexTextUpper tag)) (.str (hexTextLower (body.take len)))) := by
  unfold iccStep
  rw [hz]
  by_cases h0 : (tag == [0]) = true
  · simp only [h0, if_true, bind_ok_eq, Bool.false_eq_true, if_false]
  · have h0' : (tag == [0]) = false := by simpa using h0
    simp only [h0', Bool.false_eq_true, if_false]
    rw [slice_one]
    cases hd : b.drop q with
    | nil => simp [Rt.unpackB, bind_escape_eq]
    | cons len body =>
      simp only [List.take_succ_cons, List.take_zero, Rt.unpackB, bind_ok_eq, if_true]
      have hbody : b.drop (q + 1) = body := by
        have := congrArg (List.drop 1) hd
        simpa [List.drop_drop] using this
      have hdat : Rt.slice b (some ((q : Int) + 1)) (some ((q : Int) + (len : Int) + 1)) = body.take len := by
        rw [show ((q : Int) + 1) = ((q + 1 : Nat) : Int) by omega,
          show ((q : Int) + (len : Int) + 1) = ((q + 1 + len : Nat) : Int) by omega, slice_nat _ _ _ (by omega), hbody,
          show q + 1 + len - (q + 1) = len by omega]
      rw [hdat]
      obtain ⟨hs1, hs2⟩ := dictSet_icc rv (Rt.upperAscii (Rt.hexlify tag)) (Rt.hexlify (body.take len)) hrv
      have := ih _ (q + (1 + len)) hs2
      rw [show ((q : Int) + (1 + (len : Int))) = ((q + (1 + len) : Nat) : Int) by omega, this, hs1, upper_hexlify]
      have hdrop : b.drop (q + (1 + len)) = body.drop len := by
        rw [← hbody, List.drop_drop]; congr 1; omega
      rw [hdrop]
      rfl

theorem icc_loop (b : Bytes) (hb : ∀ x ∈ b, x < 256) : ∀ (fuel : Nat) (rv : Rt.SDict Text) (p : Nat), AllIcc rv →
    (Rt.whileO fuel (iccCond b) (iccBody b) ((p : Int), rv)).bind (fun st => .ok (toDictI st.2)) =
      iccWalk fuel (b.drop p) (toDictI rv) := by
  intro fuel
  induction fuel with
  | zero => intros; rfl
  | succ fuel ih =>
    intro rv p hrv
    rw [Rt.whileO, iccWalk]
    by_cases hc : p < b.length
    · have hcond : iccCond b ((p : Int), rv) = true := by simp [iccCond, Rt.len]; omega
      rw [if_pos hcond]
      cases hd : b.drop p with
      | nil => have := congrArg List.length hd; simp at this; omega
      | cons t0 rest =>
        have ht0 : t0 < 256 := hb t0 (List.mem_of_mem_drop (by rw [hd]; simp))
        have hrest : b.drop (p + 1) = rest := by
          have := congrArg (List.drop 1) hd
          simpa [List.drop_drop] using this
        simp only [List.isEmpty_cons, Bool.false_eq_true, if_false]
        have h1 : Rt.slice b (some (p : Int)) (some ((p : Int) + 1)) = [t0] := by
          rw [slice_one, hd]; rfl
        have hunf : iccBody b ((p : Int), rv) =
            if List.contains [[159], [95]] (Rt.slice b (some (p : Int)) (some ((p : Int) + 1))) then
              iccStep b (Rt.slice b (some (p : Int)) (some ((p : Int) + 2))) ((p : Int) + 2) rv
            else iccStep b (Rt.slice b (some (p : Int)) (some ((p : Int) + 1))) ((p : Int) + 1) rv := rfl
        rw [hunf]
        simp only [h1]
        by_cases htwo : isTwoByteTag t0 = true
        · have hcont : List.contains [[159], [95]] [t0] = true := by
            simp only [isTwoByteTag, Bool.or_eq_true, beq_iff_eq] at htwo
            rcases htwo with rfl | rfl <;> decide
          have htag : Rt.slice b (some (p : Int)) (some ((p : Int) + 2)) = iccTag (t0 :: rest) := by
            rw [show ((p : Int) + 2) = ((p + 2 : Nat) : Int) by omega, slice_nat _ _ _ (by omega), hd,
              show p + 2 - p = 2 by omega]
            simp [iccTag, htwo]
          rw [if_pos hcont, htag]
          have hz : (Rt.hexlify (iccTag (t0 :: rest)) == [48, 48]) = (iccTag (t0 :: rest) == [0]) := by
            simp only [iccTag, htwo, if_true]
            cases rest with
            | nil =>
              simp only [List.take_succ_cons, List.take_nil]
              exact hexlify_zero_one t0 ht0
            | cons t1 r2 =>
              have : ((t0 :: t1 :: r2).take 2) = [t0, t1] := rfl
              rw [this]
              have hl : (Rt.hexlify [t0, t1]).length = 4 := by simp [Rt.hexlify]
              have hn1 : (Rt.hexlify [t0, t1] == [48, 48]) = false := by
                cases hh : Rt.hexlify [t0, t1] == [48, 48] with
                | false => rfl
                | true =>
                  have := congrArg List.length (by simpa using hh : Rt.hexlify [t0, t1] = [48, 48])
                  rw [hl] at this; simp at this
              rw [hn1]; simp
          have := icc_step b fuel (iccTag (t0 :: rest)) (p + 2) rv hrv ih hz
          rw [show ((p : Int) + 2) = ((p + 2 : Nat) : Int) by omega, this]
          have haft : b.drop (p + 2) = iccAfter (t0 :: rest) := by
            simp only [iccAfter, htwo, if_true]
            have := congrArg (List.drop 2) hd
            simpa [List.drop_drop] using this
          rw [haft]
          cases iccAfter (t0 :: rest) <;> rfl
        · have htwo' : isTwoByteTag t0 = false := by simpa using htwo
          have hcont : List.contains [[159], [95]] [t0] = false := by
            simp only [isTwoByteTag, Bool.or_eq_false_iff, beq_eq_false_iff_ne] at htwo'
            simp [htwo'.1, htwo'.2]
          rw [hcont]
          simp only [Bool.false_eq_true, if_false]
          have htag : iccTag (t0 :: rest) = [t0] := by simp [iccTag, htwo']
          have hz : (Rt.hexlify [t0] == [48, 48]) = ([t0] == [0]) := hexlify_zero_one t0 ht0
          have := icc_step b fuel [t0] (p + 1) rv hrv ih hz
          rw [show ((p : Int) + 1) = ((p + 1 : Nat) : Int) by omega, this, htag]
          have haft : b.drop (p + 1) = iccAfter (t0 :: rest) := by
            simp only [iccAfter, htwo', Bool.false_eq_true, if_false]; exact hrest
          rw [haft]
          cases iccAfter (t0 :: rest) <;> rfl
    · have hcond : iccCond b ((p : Int), rv) = false := by simp [iccCond, Rt.len]; omega
      rw [hcond, List.drop_of_length_le (by omega)]
      rfl

/-- `_icc_to_dict` over bytes: for every amount of fuel the translated TLV walk is the model's -/
theorem icc_to_dict_eq (fuel : Nat) (b : Bytes) (hb : ∀ x ∈ b, x < 256) :
    (Src._icc_to_dict fuel b).bind (fun d => .ok (toDictI d)) =
      iccWalk fuel b [(.iccData, .str (hexTextLower b))] := by
  rw [icc_to_dict_unfold]
  have := icc_loop b hb fuel [([73, 67, 67, 95, 68, 65, 84, 65], Rt.hexlify b)] 0 (by
    intro kv hkv
    simp at hkv
    left; rw [hkv])
  simp only [List.drop_zero] at this
  have h0 : toDictI [([73, 67, 67, 95, 68, 65, 84, 65], Rt.hexlify b)] = [(.iccData, .str (hexTextLower b))] := by
    simp [toDictI, keyI]; rfl
  rw [h0] at this
  rw [← this]
  have hz : (((0 : Nat) : Int)) = (0 : Int) := rfl
  rw [hz]
  cases Rt.whileO fuel (iccCond b) (iccBody b) ((0 : Int), [([73, 67, 67, 95, 68, 65, 84, 65], Rt.hexlify b)]) <;> rfl

theorem icc_to_dict_model (b : Bytes) (hb : ∀ x ∈ b, x < 256) :
    (Src._icc_to_dict (b.length + 1) b).bind (fun d => .ok (toDictI d)) = iccToDict b :=
  icc_to_dict_eq _ b hb

/-! ### `_pds_to_de` -/

/-- the sorted PDS keys the loop runs over -/
def deKeys (d : Rt.SDict Text) : List Text :=
  Rt.sortedStr ((List.filter (fun key => Rt.startsWith key [80, 68, 83]) (Rt.dictKeys d)).map (fun key => key))

/-- one sub-element as the loop builds it: `f'{tag:04}{length:03}{value}'` with `int(key[3:])` and `d[key]` -/
def deEntry (d : Rt.SDict Text) (key : Text) : Outcome Text :=
  Outcome.bind (Rt.intOfStr Gen.intClasses (Rt.slice key (some 3) none)) (fun tag =>
    Outcome.bind (Rt.dictGet d key) (fun v => .ok (pdsEntry tag v)))

def deBody (d : Rt.SDict Text) (st : List Text × Text) (key : Text) : Outcome (List Text × Text) :=
  Outcome.bind (Rt.intOfStr Gen.intClasses (Rt.slice key (some 3) none)) (fun tag =>
    Outcome.bind (Rt.dictGet d key) (fun v1 =>
      Outcome.bind (Rt.dictGet d key) (fun v2 =>
        if decide (Rt.len (st.2 ++ (Rt.fmtIntW 4 tag ++ Rt.fmtIntW 3 (Rt.len v1) ++ v2)) > 999) then
          .ok (st.1 ++ [st.2], [] ++ (Rt.fmtIntW 4 tag ++ Rt.fmtIntW 3 (Rt.len v1) ++ v2))
        else .ok (st.1, st.2 ++ (Rt.fmtIntW 4 tag ++ Rt.fmtIntW 3 (Rt.len v1) ++ v2)))))

theorem pds_to_de_unfold (d : Rt.SDict Text) :
    Src._pds_to_de d =
      (Rt.forO (deBody d) (deKeys d) ([], [])).bind (fun st =>
        if !st.2.isEmpty then .ok (st.1 ++ [st.2]) else .ok st.1) := rfl

def packStep (st : List Text × Text) (e : Text) : List Text × Text :=
  if 999 < (st.2 ++ e).length then (st.1 ++ [st.2], e) else (st.1, st.2 ++ e)

def packFinish (st : List Text × Text) : List Text := if !st.2.isEmpty then st.1 ++ [st.2] else st.1

theorem pack_fold (es : List Text) : ∀ (outs : List Text) (cur : Text),
    packFinish (es.foldl packStep (outs, cur)) = outs ++ pdsPack es cur := by
  induction es with
  | nil =>
    intro outs cur
    simp only [List.foldl_nil, packFinish, pdsPack]
    cases cur <;> simp
  | cons e es ih =>
    intro outs cur
    simp only [List.foldl_cons, packStep, pdsPack]
    by_cases h : 999 < (cur ++ e).length
    · simp only [h, if_true]
      rw [ih]; simp
    · simp only [h, if_false]
      rw [ih]

theorem bind_assoc_eq {α β γ} (o : Outcome α) (f : α → Outcome β) (g : β → Outcome γ) :
    (o.bind f).bind g = o.bind (fun a => (f a).bind g) := by
  cases o <;> rfl

theorem len_gt_999 {α} (l : List α) : decide (Rt.len l > (999 : Int)) = decide (999 < l.length) := by
  unfold Rt.len
  by_cases h : 999 < l.length
  · have : ((l.length : Int) > 999) := by omega
    simp [h, this]
  · have : ¬ ((l.length : Int) > 999) := by omega
    simp [h, this]

theorem deBody_eq (d : Rt.SDict Text) (st : List Text × Text) (key : Text) :
    deBody d st key = (deEntry d key).bind (fun e => .ok (packStep st e)) := by
  unfold deBody deEntry
  cases Rt.intOfStr Gen.intClasses (Rt.slice key (some 3) none) with
  | ok tag =>
    simp only [bind_ok_eq]
    cases hg : Rt.dictGet d key with
    | ok v =>
      simp only [bind_ok_eq]
      have hE : Rt.fmtIntW 4 tag ++ Rt.fmtIntW 3 (Rt.len v) ++ v = pdsEntry tag v := rfl
      rw [hE, len_gt_999]
      unfold packStep
      simp only [List.nil_append]
      by_cases h : 999 < (st.2 ++ pdsEntry tag v).length
      · rw [if_pos (by simpa using h), if_pos h]
      · rw [if_neg (by simpa using h), if_neg h]
    | dataError => rfl
    | escape k => rfl
    | diverge => rfl
  | dataError => rfl
  | escape k => rfl
  | diverge => rfl

theorem forO_pack (d : Rt.SDict Text) (keys : List Text) : ∀ (st : List Text × Text),
    Rt.forO (deBody d) keys st =
      (Outcome.mapO (deEntry d) keys).bind (fun es => .ok (es.foldl packStep st)) := by
  induction keys with
  | nil => intro st; rfl
  | cons k ks ih =>
    intro st
    simp only [Rt.forO, Outcome.mapO, deBody_eq, bind_assoc_eq, bind_ok_eq]
    congr 1
    funext e
    rw [ih]
    simp only [List.foldl_cons]

/-- `_pds_to_de`: the translated loop over the sorted keys is the model's greedy packer `pdsPack`
    applied to the sub-elements `tag(4) length(3) value` in that order (C12: capacity, no split,
    order) — and it fails exactly when building a sub-element fails (`int(key[3:])`) -/
theorem pds_to_de_eq (d : Rt.SDict Text) :
    Src._pds_to_de d = (Outcome.mapO (deEntry d) (deKeys d)).bind (fun es => .ok (pdsPack es [])) := by
  rw [pds_to_de_unfold, forO_pack, bind_assoc_eq]
  congr 1
  funext es
  simp only [bind_ok_eq]
  have := pack_fold es [] []
  simp only [packFinish, List.nil_append] at this
  rw [← this]
  by_cases h : (List.foldl packStep ([], []) es).2.isEmpty = true <;> simp [h]

/-! ### the properties, carried over to the translated source -/

/-- C07 for the code as translated: with fuel `len + 1` the translated PDS walk does not run out
    of fuel on ANY text — the Python loop terminates (a negative length is refused, every step
    consumes at least seven characters) -/
theorem C07_source_pds_terminates (t : Text) : Src._pds_to_dict (t.length + 1) t ≠ .diverge := by
  intro h
  have := pds_to_dict_model t
  rw [h] at this
  exact Props.C07.C07_pds_terminates Gen.intClasses t this.symm

/-- C07 for the code as translated: the same for the ICC TLV walk over bytes -/
theorem C07_source_icc_terminates (b : Bytes) (hb : ∀ x ∈ b, x < 256) : Src._icc_to_dict (b.length + 1) b ≠ .diverge := by
  intro h
  have := icc_to_dict_model b hb
  rw [h] at this
  exact Props.C07.C07_icc_terminates b this.symm

/-- C12(a, b) for the code as translated: whenever the translated packer returns, the carriers it
    returns concatenate to the sub-elements in loop order — nothing dropped, duplicated or moved —
    and none holds more than 999 characters when no single sub-element does -/
theorem C12_source_pack (d : Rt.SDict Text) (outs : List Text) (h : Src._pds_to_de d = .ok outs) :
    ∃ es, Outcome.mapO (deEntry d) (deKeys d) = .ok es ∧ outs.flatten = es.flatten ∧
      ((∀ e ∈ es, e.length ≤ 999) → ∀ c ∈ outs, c.length ≤ 999) := by
  rw [pds_to_de_eq] at h
  cases hm : Outcome.mapO (deEntry d) (deKeys d) with
  | ok es =>
    rw [hm] at h
    simp only [bind_ok_eq] at h
    injection h with h
    subst h
    refine ⟨es, rfl, ?_, ?_⟩
    · rw [pdsPack_flatten]; rfl
    · intro hle
      exact pdsPack_le es [] (by simp) hle
  | dataError => rw [hm] at h; exact absurd h (by simp [Outcome.bind])
  | escape k => rw [hm] at h; exact absurd h (by simp [Outcome.bind])
  | diverge => rw [hm] at h; exact absurd h (by simp [Outcome.bind])

end Cardutil.SrcTie
