import Cardutil.SrcTie.Base
import Cardutil.Gen.Src
/-
  Source tie for the public entry points `iso8583.dumps` and `iso8583.loads` (C01, C02): the optional arguments — `None`
  or an EMPTY value means the default: the documented default encoding, the packaged element table (a parameter of the
  translation) — and the call of the worker (`_dict_to_iso8583` / `_iso8583_to_dict`, external functions here; their own
  translations are tied in EncLoop / Loop).  Both entry points resolve their defaults in the same way, so what one writes
  with given arguments the other reads with the same arguments.
-/
namespace Cardutil.SrcTie

open Cardutil Cardutil.Py

/-- `x if x else d` for an optional argument: None and the empty value give the default -/
def orDefault {α} (x : Option (List α)) (d : List α) : List α :=
  match x with
  | some v => if v.isEmpty then d else v
  | none => d

def latin1Name : Text := [108, 97, 116, 105, 110, 95, 49]

abbrev EncWorker := Rt.SDict Rt.AnyVal → Rt.SDict Rt.BitCfg → Text → Bool → Outcome Bytes
abbrev DecWorker := Bytes → Rt.SDict Rt.BitCfg → Text → Bool → Outcome (Rt.SDict Rt.PyVal)

theorem dumps_eq (E : EncWorker) (obj : Rt.SDict Rt.AnyVal) (enc : Option Text) (cfg : Option (Rt.SDict Rt.BitCfg))
    (hex : Bool) (pkg : Rt.SDict Rt.BitCfg) :
    Src.dumps E obj enc cfg hex pkg = E obj (orDefault cfg pkg) (orDefault enc latin1Name) hex := by
  unfold Src.dumps orDefault latin1Name
  cases enc with
  | none => cases cfg with
    | none => exact bind_ok_right _
    | some c => by_cases h : c.isEmpty = true <;> simp only [h, if_true, Bool.false_eq_true, if_false] <;> exact bind_ok_right _
  | some e =>
    by_cases he : e.isEmpty = true
    · simp only [he, if_true]
      cases cfg with
      | none => exact bind_ok_right _
      | some c => by_cases h : c.isEmpty = true <;> simp only [h, if_true, Bool.false_eq_true, if_false] <;> exact bind_ok_right _
    · simp only [he, Bool.false_eq_true, if_false]
      cases cfg with
      | none => exact bind_ok_right _
      | some c => by_cases h : c.isEmpty = true <;> simp only [h, if_true, Bool.false_eq_true, if_false] <;> exact bind_ok_right _

theorem loads_eq (L : DecWorker) (b : Bytes) (enc : Option Text) (cfg : Option (Rt.SDict Rt.BitCfg))
    (hex : Bool) (pkg : Rt.SDict Rt.BitCfg) :
    Src.loads L b enc cfg hex pkg = L b (orDefault cfg pkg) (orDefault enc latin1Name) hex := by
  unfold Src.loads orDefault latin1Name
  cases enc with
  | none => cases cfg with
    | none => exact bind_ok_right _
    | some c => by_cases h : c.isEmpty = true <;> simp only [h, if_true, Bool.false_eq_true, if_false] <;> exact bind_ok_right _
  | some e =>
    by_cases he : e.isEmpty = true
    · simp only [he, if_true]
      cases cfg with
      | none => exact bind_ok_right _
      | some c => by_cases h : c.isEmpty = true <;> simp only [h, if_true, Bool.false_eq_true, if_false] <;> exact bind_ok_right _
    · simp only [he, Bool.false_eq_true, if_false]
      cases cfg with
      | none => exact bind_ok_right _
      | some c => by_cases h : c.isEmpty = true <;> simp only [h, if_true, Bool.false_eq_true, if_false] <;> exact bind_ok_right _

/-- with nothing given: latin-1 and the packaged table, binary bitmap — for the encoder and for the decoder -/
theorem C02_source_defaults (E : EncWorker) (L : DecWorker) (obj : Rt.SDict Rt.AnyVal) (b : Bytes) (pkg : Rt.SDict Rt.BitCfg) :
    Src.dumps E obj none none false pkg = E obj pkg latin1Name false ∧
    Src.loads L b none none false pkg = L b pkg latin1Name false :=
  ⟨dumps_eq E obj none none false pkg, loads_eq L b none none false pkg⟩

/-- C01 at the entry points: they resolve the optional arguments alike, so if the workers round-trip a message under
    the resolved configuration, encoding and bitmap form, so do `dumps` then `loads` called with the SAME arguments —
    whatever these are (nothing, an empty value, a caller's configuration, another encoding) -/
theorem C01_source_entry_roundtrip (E : EncWorker) (L : DecWorker) (obj : Rt.SDict Rt.AnyVal) (m : Rt.SDict Rt.PyVal)
    (enc : Option Text) (cfg : Option (Rt.SDict Rt.BitCfg)) (hex : Bool) (pkg : Rt.SDict Rt.BitCfg) (data : Bytes)
    (hE : E obj (orDefault cfg pkg) (orDefault enc latin1Name) hex = .ok data)
    (hL : L data (orDefault cfg pkg) (orDefault enc latin1Name) hex = .ok m) :
    Src.dumps E obj enc cfg hex pkg = .ok data ∧ Src.loads L data enc cfg hex pkg = .ok m := by
  rw [dumps_eq, loads_eq]
  exact ⟨hE, hL⟩

/-- an EMPTY caller configuration is the packaged one (not "no element is configured") -/
theorem C02_source_empty_config_is_packaged (E : EncWorker) (obj : Rt.SDict Rt.AnyVal) (enc : Option Text) (hex : Bool)
    (pkg : Rt.SDict Rt.BitCfg) :
    Src.dumps E obj enc (some []) hex pkg = Src.dumps E obj enc none hex pkg := by
  rw [dumps_eq, dumps_eq]; rfl

end Cardutil.SrcTie
