import Cardutil.SrcTie.Param
import Cardutil.Gen.Config
/-
  Source tie for the body of the `while True:` loop of `mciipm.IpmParamReader.__next__` (C18): what the reader does
  with ONE record the base reader delivered — decode the table id (expanded: characters 11..19 of the row; compressed:
  the index entry of characters 8..11), the effective timestamp and the active/inactive code, and, when the table is
  the requested one, build the row dictionary by calling the (translated) `_get_param_field` for every column of the
  table's layout, in layout order; otherwise go round again.  The translated body equals the model's `Param.rowOf`,
  and iterating it over the records equals the model's `Param.rowsOf`.
-/
namespace Cardutil.SrcTie

open Cardutil Cardutil.Py

def kTableId : Text := [116, 97, 98, 108, 101, 95, 105, 100]
def kEffTs : Text := [101, 102, 102, 101, 99, 116, 105, 118, 101, 95, 116, 105, 109, 101, 115, 116, 97, 109, 112]
def kCode : Text := [97, 99, 116, 105, 118, 101, 95, 105, 110, 97, 99, 116, 105, 118, 101, 95, 99, 111, 100, 101]
def kStart : Text := [115, 116, 97, 114, 116]
def kEnd : Text := [101, 110, 100]

/-- the dictionary the reader returns for a model row: the three fixed entries, then the configured columns in layout order -/
def rowDict (fields : List Text) (r : Param.Row) : Rt.SDict Text :=
  [(kTableId, r.tableId), (kEffTs, r.effTs), (kCode, r.code)] ++ fields.zip r.cols

/-- a table layout as the configuration gives it (column name ↦ {start, end}) against the model's column list:
    same order, `start`/`end` present, and the positions are at or after the 8 characters a compressed row lacks -/
inductive Layout : Rt.SDict (Rt.SDict Int) → List (Nat × Nat) → Prop
  | nil : Layout [] []
  | cons {f d s e rest cols} : Rt.dictGet d kStart = .ok ((s : Nat) : Int) → Rt.dictGet d kEnd = .ok ((e : Nat) : Int) →
      8 ≤ s → s ≤ e → Layout rest cols → Layout ((f, d) :: rest) ((s, e) :: cols)

theorem decodeSlice_cases (c : Codec) (r : Bytes) (a b : Nat) :
    (∃ t, Param.decodeSlice c r a b = .ok t) ∨ Param.decodeSlice c r a b = .escape .unicodeError := by
  unfold Param.decodeSlice
  cases c.decode (Py.slice r a b) with
  | none => exact .inr rfl
  | some t => exact .inl ⟨t, rfl⟩

theorem mapO_decode_cases (c : Codec) (r : Bytes) (off : Nat) (cols : List (Nat × Nat)) :
    (∃ vs, Outcome.mapO (fun (se : Nat × Nat) => Param.decodeSlice c r (se.1 - off) (se.2 - off)) cols = .ok vs) ∨
    Outcome.mapO (fun (se : Nat × Nat) => Param.decodeSlice c r (se.1 - off) (se.2 - off)) cols = .escape .unicodeError := by
  induction cols with
  | nil => exact .inl ⟨[], rfl⟩
  | cons se cols ih =>
    rw [Outcome.mapO]
    rcases decodeSlice_cases c r (se.1 - off) (se.2 - off) with ⟨t, ht⟩ | ht
    · rw [ht]
      rcases ih with ⟨vs, hvs⟩ | hvs
      · rw [hvs]; exact .inl ⟨t :: vs, rfl⟩
      · rw [hvs]; exact .inr rfl
    · rw [ht]; exact .inr rfl

theorem dictSet_new {β} (d : Rt.SDict β) (k : Text) (v : β) (h : k ∉ d.map (·.1)) :
    Rt.dictSet d k v = d ++ [(k, v)] := by
  induction d with
  | nil => rfl
  | cons kv rest ih =>
    obtain ⟨k', v'⟩ := kv
    simp only [List.map_cons, List.mem_cons, not_or] at h
    rw [Rt.dictSet]
    have : (k' == k) = false := by
      rw [beq_eq_false_iff_ne]; exact fun e => h.1 e.symm
    rw [this]
    simp only [Bool.false_eq_true, if_false, List.cons_append]
    rw [ih h.2]

theorem dictGet_first {β} (k : Text) (v : β) (rest : Rt.SDict β) : Rt.dictGet ((k, v) :: rest) k = .ok v := by
  simp [Rt.dictGet, List.find?]

theorem dictGet_skip {β} (k k' : Text) (v : β) (rest : Rt.SDict β) (h : k' ≠ k) :
    Rt.dictGet ((k', v) :: rest) k = Rt.dictGet rest k := by
  have : (k' == k) = false := by rw [beq_eq_false_iff_ne]; exact h
  simp [Rt.dictGet, List.find?, this]

/-- the column loop of the reader: with a column reader `g` that cuts the configured positions (moved `off` to the
    left), every column of the remaining layout is appended to the row in layout order — or the first undecodable
    column ends the call -/
theorem column_loop (c : Codec) (record : Bytes) (off : Nat) (g : Text → Outcome Text) :
    ∀ (sfx : Rt.SDict (Rt.SDict Int)) (cols : List (Nat × Nat)), Layout sfx cols →
    (∀ f d s e, (f, d) ∈ sfx → Rt.dictGet d kStart = .ok ((s : Nat) : Int) → Rt.dictGet d kEnd = .ok ((e : Nat) : Int) →
      8 ≤ s → s ≤ e → g f = Param.decodeSlice c record (s - off) (e - off)) →
    (sfx.map (·.1)).Nodup →
    ∀ (acc : Rt.SDict Text), (∀ f ∈ sfx.map (·.1), f ∉ acc.map (·.1)) →
    Rt.forO (fun (st : Rt.SDict Text) (field : Text) => Outcome.bind (g field) (fun t => .ok (Rt.dictSet st field t)))
        (Rt.dictKeys sfx) acc =
      (match Outcome.mapO (fun (se : Nat × Nat) => Param.decodeSlice c record (se.1 - off) (se.2 - off)) cols with
       | .ok vals => .ok (acc ++ (sfx.map (·.1)).zip vals)
       | _ => .escape .unicodeError) := by
  intro sfx cols hl
  induction hl with
  | nil => intro _ _ acc _; simp [Rt.dictKeys, Rt.forO, Outcome.mapO]
  | @cons f d s e rest cols hs he h8 hse _ ih =>
    intro hg hnd' acc hacc
    have hgf := hg f d s e (by simp) hs he h8 hse
    simp only [Rt.dictKeys, List.map_cons, Rt.forO, Outcome.mapO]
    rw [hgf]
    rcases decodeSlice_cases c record (s - off) (e - off) with ⟨t, ht⟩ | ht
    · rw [ht]
      simp only [bind_ok_eq]
      have hf : f ∉ acc.map (·.1) := hacc f (by simp)
      rw [dictSet_new acc f t hf]
      have hnd2 := List.nodup_cons.mp hnd'
      have := ih (fun f' d' s' e' hm => hg f' d' s' e' (List.mem_cons_of_mem _ hm)) hnd2.2 (acc ++ [(f, t)]) (by
        intro f' hf'
        simp only [List.map_append, List.map_cons, List.map_nil, List.mem_append, List.mem_singleton, not_or]
        refine ⟨hacc f' (by simp [hf']), ?_⟩
        intro e'; subst e'; exact hnd2.1 hf')
      simp only [Rt.dictKeys] at this
      rw [this]
      rcases mapO_decode_cases c record off cols with ⟨vs, hvs⟩ | hvs
      · rw [hvs]; simp [Outcome.bind]
      · rw [hvs]; simp [Outcome.bind]
    · rw [ht]; rfl

theorem dictGet_of_mem {β} (d : Rt.SDict β) (hnd : (d.map (·.1)).Nodup) (k : Text) (v : β) (h : (k, v) ∈ d) :
    Rt.dictGet d k = .ok v := by
  induction d with
  | nil => cases h
  | cons kv rest ih =>
    obtain ⟨k', v'⟩ := kv
    have hnd2 := List.nodup_cons.mp hnd
    rcases List.mem_cons.mp h with e | hm
    · injection e with e1 e2; subst e1; subst e2; exact dictGet_first _ _ _
    · have hne : k' ≠ k := by
        intro e; subst e
        exact hnd2.1 (List.mem_map.mpr ⟨(k', v), hm, rfl⟩)
      rw [dictGet_skip _ _ _ _ hne]
      exact ih hnd2.2 hm

/-- what the reader returns for one record, in terms of the model's row: the row's dictionary, or None -/
def rowResult (fields : List Text) (x : Outcome (Option Param.Row)) : Outcome (Option (Rt.SDict Text)) :=
  x.bind (fun o => .ok (o.map (rowDict fields)))

/-- the names of a layout's columns do not collide with the three fixed entries of a row -/
def FreshColumns (layout : Rt.SDict (Rt.SDict Int)) : Prop :=
  (layout.map (·.1)).Nodup ∧ ∀ f ∈ layout.map (·.1), f ∉ [kTableId, kEffTs, kCode]

/-- EXPANDED file: the translated loop body on one record is the model's `rowOf` -/
theorem next_row_expanded (c : Codec) (index : Rt.SDict Text) (cfg : Rt.SDict (Rt.SDict (Rt.SDict Int))) (table : Text)
    (layout : Rt.SDict (Rt.SDict Int)) (cols : List (Nat × Nat)) (record : Bytes)
    (hcfg : Rt.dictGet cfg table = .ok layout) (hl : Layout layout cols) (hfresh : FreshColumns layout) :
    Src.IpmParamReader_next_row true (decoderOfCodec c) index cfg table record =
      rowResult (layout.map (·.1)) (Param.rowOf c cols table true index record) := by
  unfold Src.IpmParamReader_next_row Param.rowOf rowResult
  have e1 : Rt.slice record (some (11 : Int)) (some (19 : Int)) = Py.slice record 11 19 := slice_nn record 11 19
  have e2 : Rt.slice record (some (0 : Int)) (some (10 : Int)) = Py.slice record 0 10 := slice_nn record 0 10
  have e3 : Rt.slice record (some (10 : Int)) (some (11 : Int)) = Py.slice record 10 11 := slice_nn record 10 11
  simp only [if_true, e1, e2, e3, decodeSlice_eq]
  rcases decodeSlice_cases c record 11 19 with ⟨key, hk⟩ | hk
  · rcases decodeSlice_cases c record 0 10 with ⟨eff, he⟩ | he
    · rcases decodeSlice_cases c record 10 11 with ⟨code, hc⟩ | hc
      · rw [hk, he, hc]
        simp only [bind_ok_eq]
        by_cases hkt : key = table
        · subst hkt
          have hid : c.decode (Py.slice record 11 19) = some key := by
            unfold Param.decodeSlice at hk
            cases hd : c.decode (Py.slice record 11 19) with
            | none => rw [hd] at hk; cases hk
            | some t => rw [hd] at hk; injection hk with hk; rw [hk]
          have hloop := column_loop c record 0
            (fun field => Src.IpmParamReaderget_param_field true (decoderOfCodec c) index cfg key record field)
            layout cols hl
            (fun f d s e hm hs he' _ _ =>
              get_param_field_expanded c index cfg key record key f s e hid
                ⟨layout, d, hcfg, dictGet_of_mem layout hfresh.1 f d hm, hs, he'⟩)
            hfresh.1
            [(kTableId, key), (kEffTs, eff), (kCode, code)]
            (fun f hf => by
              have := hfresh.2 f hf
              simpa using this)
          simp only [beq_self_eq_true, if_true, hcfg, bind_ok_eq]
          simp only [kTableId, kEffTs, kCode] at hloop
          rw [hloop]
          rcases mapO_decode_cases c record 0 cols with ⟨vs, hvs⟩ | hvs
          · simp only [Nat.sub_zero] at hvs ⊢
            rw [hvs]
            simp [Outcome.bind, rowDict, kTableId, kEffTs, kCode]
          · simp only [Nat.sub_zero] at hvs ⊢
            rw [hvs]
            simp [Outcome.bind]
        · have h1 : (key == table) = false := by rw [beq_eq_false_iff_ne]; exact hkt
          simp [h1, Outcome.bind]
      · rw [hk, he, hc]; rfl
    · rw [hk, he]
      rcases decodeSlice_cases c record 10 11 with ⟨code, hc⟩ | hc <;> rw [hc] <;> rfl
  · rw [hk]
    rcases decodeSlice_cases c record 0 10 with ⟨eff, he⟩ | he <;>
      rcases decodeSlice_cases c record 10 11 with ⟨code, hc⟩ | hc <;> rw [he, hc] <;> rfl

/-- COMPRESSED file: the table of a row is the index entry of its sub-id; the columns are cut 8 to the left -/
theorem next_row_compressed (c : Codec) (index : Rt.SDict Text) (cfg : Rt.SDict (Rt.SDict (Rt.SDict Int))) (table : Text)
    (layout : Rt.SDict (Rt.SDict Int)) (cols : List (Nat × Nat)) (record : Bytes)
    (hcfg : Rt.dictGet cfg table = .ok layout) (hl : Layout layout cols) (hfresh : FreshColumns layout) :
    Src.IpmParamReader_next_row false (decoderOfCodec c) index cfg table record =
      rowResult (layout.map (·.1)) (Param.rowOf c cols table false index record) := by
  unfold Src.IpmParamReader_next_row Param.rowOf rowResult
  have e1 : Rt.slice record (some (8 : Int)) (some (11 : Int)) = Py.slice record 8 11 := slice_nn record 8 11
  have e2 : Rt.slice record (some (0 : Int)) (some (7 : Int)) = Py.slice record 0 7 := slice_nn record 0 7
  have e3 : Rt.slice record (some (7 : Int)) (some (8 : Int)) = Py.slice record 7 8 := slice_nn record 7 8
  simp only [Bool.false_eq_true, if_false, e1, e2, e3, decodeSlice_eq]
  rcases decodeSlice_cases c record 8 11 with ⟨sub, hk⟩ | hk
  · rcases decodeSlice_cases c record 0 7 with ⟨eff, he⟩ | he
    · rcases decodeSlice_cases c record 7 8 with ⟨code, hc⟩ | hc
      · rw [hk, he, hc]
        simp only [bind_ok_eq]
        have hlook : Param.Index.lookup index sub = Rt.dictGetOpt index sub := rfl
        rw [hlook]
        cases hix : Rt.dictGetOpt index sub with
        | none => simp [Outcome.bind]
        | some tid =>
          simp only []
          by_cases hkt : tid = table
          · subst hkt
            have hsub : c.decode (Py.slice record 8 11) = some sub := by
              unfold Param.decodeSlice at hk
              cases hd : c.decode (Py.slice record 8 11) with
              | none => rw [hd] at hk; cases hk
              | some t => rw [hd] at hk; injection hk with hk; rw [hk]
            have hloop := column_loop c record 8
              (fun field => Src.IpmParamReaderget_param_field false (decoderOfCodec c) index cfg tid record field)
              layout cols hl
              (fun f d s e hm hs he' h8 hse =>
                get_param_field_compressed c index cfg tid record sub tid f s e hsub hix
                  ⟨layout, d, hcfg, dictGet_of_mem layout hfresh.1 f d hm, hs, he'⟩ h8 hse)
              hfresh.1
              [(kTableId, tid), (kEffTs, eff), (kCode, code)]
              (fun f hf => by
                have := hfresh.2 f hf
                simpa using this)
            simp only [beq_self_eq_true, if_true, hcfg, bind_ok_eq]
            simp only [kTableId, kEffTs, kCode] at hloop
            rw [hloop]
            rcases mapO_decode_cases c record 8 cols with ⟨vs, hvs⟩ | hvs
            · rw [hvs]
              simp [Outcome.bind, rowDict, kTableId, kEffTs, kCode]
            · rw [hvs]
              simp [Outcome.bind]
          · have h1 : (tid == table) = false := by rw [beq_eq_false_iff_ne]; exact hkt
            simp [h1, Outcome.bind]
      · rw [hk, he, hc]; rfl
    · rw [hk, he]
      rcases decodeSlice_cases c record 7 8 with ⟨code, hc⟩ | hc <;> rw [hc] <;> rfl
  · rw [hk]
    rcases decodeSlice_cases c record 0 7 with ⟨eff, he⟩ | he <;>
      rcases decodeSlice_cases c record 7 8 with ⟨code, hc⟩ | hc <;> rw [he, hc] <;> rfl

/-- both representations -/
theorem next_row_eq (c : Codec) (index : Rt.SDict Text) (cfg : Rt.SDict (Rt.SDict (Rt.SDict Int))) (table : Text)
    (expanded : Bool) (layout : Rt.SDict (Rt.SDict Int)) (cols : List (Nat × Nat)) (record : Bytes)
    (hcfg : Rt.dictGet cfg table = .ok layout) (hl : Layout layout cols) (hfresh : FreshColumns layout) :
    Src.IpmParamReader_next_row expanded (decoderOfCodec c) index cfg table record =
      rowResult (layout.map (·.1)) (Param.rowOf c cols table expanded index record) := by
  cases expanded
  · exact next_row_compressed c index cfg table layout cols record hcfg hl hfresh
  · exact next_row_expanded c index cfg table layout cols record hcfg hl hfresh

/-! ### the loop around it: `while True: record = super().__next__(); <body>` over the records the base reader delivers -/

/-- iterating the reader: the rows returned, and how the iteration ended (`last` = how the base reader ended) -/
def srcParamRows (expanded : Bool) (dec : Bytes → Outcome Text) (index : Rt.SDict Text)
    (cfg : Rt.SDict (Rt.SDict (Rt.SDict Int))) (table : Text) (last : Param.PEnd) :
    List Bytes → List (Rt.SDict Text) × Param.PEnd
  | [] => ([], last)
  | r :: rs =>
    match Src.IpmParamReader_next_row expanded dec index cfg table r with
    | .ok x =>
      let rest := srcParamRows expanded dec index cfg table last rs
      (match x with | some row => row :: rest.1 | none => rest.1, rest.2)
    | .dataError => ([], .dataError)
    | .escape k => ([], .escape k)
    | .diverge => ([], .escape .other)

/-- C18 for the reader's row loop as translated: over ANY records, the rows returned are the dictionaries of exactly the
    rows the model returns — those of the requested table, in file order, each with its effective timestamp, its
    active/inactive code and every configured column cut at the configured positions — and the iteration ends the same way -/
theorem C18_source_rows (c : Codec) (index : Rt.SDict Text) (cfg : Rt.SDict (Rt.SDict (Rt.SDict Int))) (table : Text)
    (expanded : Bool) (layout : Rt.SDict (Rt.SDict Int)) (cols : List (Nat × Nat)) (last : Param.PEnd)
    (hcfg : Rt.dictGet cfg table = .ok layout) (hl : Layout layout cols) (hfresh : FreshColumns layout)
    (recs : List Bytes) :
    srcParamRows expanded (decoderOfCodec c) index cfg table last recs =
      ((Param.rowsOf c cols table expanded index last recs).1.map (rowDict (layout.map (·.1))),
       (Param.rowsOf c cols table expanded index last recs).2) := by
  induction recs with
  | nil => rfl
  | cons r rs ih =>
    rw [srcParamRows, Param.rowsOf, next_row_eq c index cfg table expanded layout cols r hcfg hl hfresh, ih]
    unfold rowResult
    cases Param.rowOf c cols table expanded index r with
    | ok x => cases x <;> rfl
    | dataError => rfl
    | escape k => rfl
    | diverge => rfl

theorem rowOf_tableId (c : Codec) (cols : List (Nat × Nat)) (table : Text) (expanded : Bool) (ix : Param.Index)
    (r : Bytes) (row : Param.Row) (h : Param.rowOf c cols table expanded ix r = .ok (some row)) : row.tableId = table := by
  unfold Param.rowOf at h
  simp only [] at h
  repeat' (split at h)
  all_goals first
    | (injection h with h; injection h with h; rw [← h])
    | (injection h with h; cases h)
    | cases h

/-- a row of another table is never returned, whatever the file contains: every returned dictionary carries the requested id -/
theorem C18_source_only_requested_table (c : Codec) (index : Rt.SDict Text) (cfg : Rt.SDict (Rt.SDict (Rt.SDict Int)))
    (table : Text) (expanded : Bool) (layout : Rt.SDict (Rt.SDict Int)) (cols : List (Nat × Nat)) (last : Param.PEnd)
    (hcfg : Rt.dictGet cfg table = .ok layout) (hl : Layout layout cols) (hfresh : FreshColumns layout)
    (recs : List Bytes) :
    ∀ d ∈ (srcParamRows expanded (decoderOfCodec c) index cfg table last recs).1, Rt.dictGet d kTableId = .ok table := by
  rw [C18_source_rows c index cfg table expanded layout cols last hcfg hl hfresh recs]
  intro d hd
  simp only [List.mem_map] at hd
  obtain ⟨row, hrow, rfl⟩ := hd
  have : row.tableId = table := by
    clear hcfg hl hfresh
    induction recs with
    | nil => simp [Param.rowsOf] at hrow
    | cons r rs ih =>
      rw [Param.rowsOf] at hrow
      cases hr : Param.rowOf c cols table expanded index r with
      | ok x =>
        rw [hr] at hrow
        cases x with
        | none => exact ih hrow
        | some row' =>
          simp only [List.mem_cons] at hrow
          rcases hrow with e | hm
          · subst e; exact rowOf_tableId c cols table expanded index r row hr
          · exact ih hm
      | dataError => rw [hr] at hrow; cases hrow
      | escape k => rw [hr] at hrow; cases hrow
      | diverge => rw [hr] at hrow; cases hrow
  rw [rowDict, this]
  exact dictGet_first _ _ _

/-- the layout hypotheses are satisfiable: one column at 19..22 -/
example : Layout [([67], [(kStart, (19 : Int)), (kEnd, (22 : Int))])] [(19, 22)] ∧
    FreshColumns [([67], [(kStart, (19 : Int)), (kEnd, (22 : Int))])] := by
  refine ⟨.cons (by decide) (by decide) (by decide) (by decide) .nil, by decide, by decide⟩

/-! ### the packaged table layouts meet the hypotheses (re-translated from /repo's configuration on every run) -/

/-- a table of the generated configuration as the dictionary the reader is given -/
def layoutOf (t : List (String × Nat × Nat)) : Rt.SDict (Rt.SDict Int) :=
  t.map (fun x => (Rt.lit x.1, [(kStart, ((x.2.1 : Nat) : Int)), (kEnd, ((x.2.2 : Nat) : Int))]))

theorem layout_of (t : List (String × Nat × Nat)) (h : ∀ x ∈ t, 8 ≤ x.2.1 ∧ x.2.1 ≤ x.2.2) :
    Layout (layoutOf t) (t.map (fun x => (x.2.1, x.2.2))) := by
  induction t with
  | nil => exact .nil
  | cons x t ih =>
    have hx := h x (by simp)
    exact .cons (dictGet_first _ _ _) (by rw [dictGet_skip _ _ _ _ (by decide)]; exact dictGet_first _ _ _)
      hx.1 hx.2 (ih (fun y hy => h y (by simp [hy])))

/-- every packaged parameter table: positions at or after 8 (in fact 19), start ≤ end, column names distinct and
    different from the three fixed entries — so `C18_source_rows` applies to each of them -/
theorem packaged_layouts_ok : ∀ t ∈ Gen.paramTables,
    Layout (layoutOf t.2) (t.2.map (fun x => (x.2.1, x.2.2))) ∧ FreshColumns (layoutOf t.2) := by
  have h1 : ∀ t ∈ Gen.paramTables, ∀ x ∈ t.2, 8 ≤ x.2.1 ∧ x.2.1 ≤ x.2.2 := by decide +kernel
  have h2 : ∀ t ∈ Gen.paramTables, ((layoutOf t.2).map (·.1)).Nodup ∧
      ∀ f ∈ (layoutOf t.2).map (·.1), f ∉ [kTableId, kEffTs, kCode] := by decide +kernel
  intro t ht
  exact ⟨layout_of t.2 (h1 t ht), h2 t ht⟩

end Cardutil.SrcTie
