import Cardutil.SrcTie.Base
import Cardutil.Gen.Src
import Cardutil.Model.Card
import Cardutil.Props.C15
import Cardutil.Props.C16
/-
  Source tie for `cardutil/card.py`: the translated `calculate_check_digit`, `validate_check_digit`,
  `add_check_digit` and `mask` ARE the models `Card.calcText`, `Card.validateText`,
  `Card.addCheckDigit`, `Card.mask` (for all inputs in the stated domain), and C15 / C16 restated
  for the translated code.
-/
namespace Cardutil.SrcTie

open Cardutil Cardutil.Py

/-! ### card.py -/

/-- `mask(card_number, mask_char)` with a one-character mask is the model's `mask` -/
theorem mask_eq (c : Text) (m : Nat) : Src.mask c [m] = Card.mask c m := by
  unfold Src.mask Card.mask
  rw [slice_0_to _ _ (by decide), slice_from_neg _ _ (by decide), mulSeq_single]
  have : ((Rt.len c) - (10 : Int)).toNat = c.length - 10 := by unfold Rt.len; omega
  rw [this]
  rfl

/-- text whose `str.isdigit()` characters are the ASCII digits only (no superscripts and the like,
    for which `int()` raises): the domain of the Luhn model -/
def PlainDigits (t : Text) : Prop := ∀ c ∈ t, Gen.strDigits.contains c = true → 48 ≤ c ∧ c ≤ 57

theorem ascii_digits_isdigit : ∀ c, 48 ≤ c → c ≤ 57 → Gen.strDigits.contains c = true := by
  intro c h1 h2
  have : c = 48 ∨ c = 49 ∨ c = 50 ∨ c = 51 ∨ c = 52 ∨ c = 53 ∨ c = 54 ∨ c = 55 ∨ c = 56 ∨ c = 57 := by omega
  rcases this with rfl | rfl | rfl | rfl | rfl | rfl | rfl | rfl | rfl | rfl <;> decide

theorem int_of_ascii_digit : ∀ c, 48 ≤ c → c ≤ 57 →
    Rt.intOfChar Gen.intClasses c = .ok ((c - 48 : Nat) : Int) := by
  intro c h1 h2
  have : c = 48 ∨ c = 49 ∨ c = 50 ∨ c = 51 ∨ c = 52 ∨ c = 53 ∨ c = 54 ∨ c = 55 ∨ c = 56 ∨ c = 57 := by omega
  rcases this with rfl | rfl | rfl | rfl | rfl | rfl | rfl | rfl | rfl | rfl <;> decide

theorem filter_digits_eq (t : Text) (h : PlainDigits t) :
    t.filter (fun c => Gen.strDigits.contains c) = t.filter (fun c => decide (48 ≤ c ∧ c ≤ 57)) := by
  apply List.filter_congr
  intro c hc
  show Gen.strDigits.contains c = decide (48 ≤ c ∧ c ≤ 57)
  by_cases hd : 48 ≤ c ∧ c ≤ 57
  · rw [ascii_digits_isdigit c hd.1 hd.2]; simp [hd]
  · have : Gen.strDigits.contains c = false := by
      cases hx : Gen.strDigits.contains c with
      | false => rfl
      | true => exact absurd (h c hc hx) hd
    rw [this]; simp [hd]

theorem mapO_digits (l : List Nat) (h : ∀ c ∈ l, 48 ≤ c ∧ c ≤ 57) :
    Outcome.mapO (fun c => Rt.intOfChar Gen.intClasses c) l = .ok (l.map (fun c => ((c - 48 : Nat) : Int))) := by
  induction l with
  | nil => rfl
  | cons c cs ih =>
    have hc := h c (by simp)
    simp only [Outcome.mapO, int_of_ascii_digit c hc.1 hc.2, ih (fun x hx => h x (by simp [hx])), Outcome.bind,
      List.map_cons]

theorem sumList_cons (a : Int) (l : List Int) : Rt.sumList (a :: l) = a + Rt.sumList l := by
  unfold Rt.sumList
  simp only [List.foldl_cons]
  have : ∀ (l : List Int) (x y : Int), l.foldl (· + ·) (x + y) = x + l.foldl (· + ·) y := by
    intro l
    induction l with
    | nil => intros; rfl
    | cons z zs ih => intro x y; simp only [List.foldl_cons]; rw [Int.add_assoc, ih]
  simpa using this l a 0

/-- the weight function of the source: `sum(divmod(multiplier * digit, 10))` -/
def srcWeight (p : Int × Int) : Int := Rt.sum2 (Rt.divmod (p.2 * p.1) 10)

theorem srcWeight_eq (d m : Nat) : srcWeight ((d : Int), (m : Int)) = ((Card.dsum (m * d) : Nat) : Int) := by
  unfold srcWeight Rt.sum2 Rt.divmod Card.dsum
  simp only []
  omega

/-- the source's `zip(digits[::-1], cycle([2, 1]))` walk is the model's alternating weighted sum -/
theorem zip_cycle_wsum (xs : List Nat) :
    Rt.sumList ((Rt.zipCycleGo [(2 : Int), 1] (xs.map (fun (d : Nat) => (d : Int))) [2, 1]).map srcWeight) = (Card.wsum true xs : Nat) ∧
    Rt.sumList ((Rt.zipCycleGo [(2 : Int), 1] (xs.map (fun (d : Nat) => (d : Int))) [1]).map srcWeight) = (Card.wsum false xs : Nat) ∧
    Rt.sumList ((Rt.zipCycleGo [(2 : Int), 1] (xs.map (fun (d : Nat) => (d : Int))) []).map srcWeight) = (Card.wsum true xs : Nat) := by
  induction xs with
  | nil => exact ⟨rfl, rfl, rfl⟩
  | cons x xs ih =>
    obtain ⟨ih1, ih2, ih3⟩ := ih
    have w2 := srcWeight_eq x 2
    have w1 := srcWeight_eq x 1
    refine ⟨?_, ?_, ?_⟩
    · simp only [List.map_cons, Rt.zipCycleGo, sumList_cons, ih2, Card.wsum]
      rw [show ((2 : Int)) = ((2 : Nat) : Int) from rfl, w2]
      simp
    · simp only [List.map_cons, Rt.zipCycleGo, sumList_cons, ih3, Card.wsum]
      rw [show ((1 : Int)) = ((1 : Nat) : Int) from rfl, w1]
      simp
    · simp only [List.map_cons, Rt.zipCycleGo, sumList_cons, ih2, Card.wsum]
      rw [show ((2 : Int)) = ((2 : Nat) : Int) from rfl, w2]
      simp

theorem natDigits_small (n : Nat) (h : n < 10) : natDigits n = [48 + n] := by
  rw [natDigits]; simp [h]

/-- `calculate_check_digit` -/
theorem calc_eq (t : Text) (h : PlainDigits t) : Src.calculate_check_digit t = .ok (Card.calcText t) := by
  unfold Src.calculate_check_digit
  rw [filter_digits_eq t h, mapO_digits _ (by
    intro c hc
    have := (List.mem_filter.mp hc).2
    simpa using this)]
  simp only [Outcome.bind]
  congr 1
  unfold Card.calcText Card.checkDigit Card.digitsOf
  have hrev : List.reverse (List.map (fun c => ((c - 48 : Nat) : Int)) (List.filter (fun c => decide (48 ≤ c ∧ c ≤ 57)) t)) =
      (List.map (· - 48) (List.filter (fun c => decide (48 ≤ c ∧ c ≤ 57)) t)).reverse.map (fun (d : Nat) => (d : Int)) := by
    rw [← List.map_reverse, ← List.map_reverse, List.map_map]
    rfl
  have hz := (zip_cycle_wsum (List.map (· - 48) (List.filter (fun c => decide (48 ≤ c ∧ c ≤ 57)) t)).reverse).1
  unfold Rt.zipCycle
  rw [hrev]
  have hf : (fun (p : Int × Int) => let digit := p.1; let multiplier := p.2; Rt.sum2 (Rt.divmod (multiplier * digit) (10 : Int))) = srcWeight := rfl
  rw [hf, hz]
  generalize Card.wsum true (List.map (· - 48) (List.filter (fun c => decide (48 ≤ c ∧ c ≤ 57)) t)).reverse = w
  have : ((w : Int) * 9) % 10 = (((w * 9) % 10 : Nat) : Int) := by omega
  rw [this]
  unfold Rt.strOfInt strInt fmtInt fmtNat
  simp only [Nat.lt_irrefl, false_and, if_false]
  exact natDigits_small _ (by omega)

theorem plain_dropLast {t : Text} (h : PlainDigits t) : PlainDigits t.dropLast :=
  fun c hc => h c (List.dropLast_subset t hc)

/-- `add_check_digit` -/
theorem add_eq (t : Text) (h : PlainDigits t) : Src.add_check_digit t = .ok (Card.addCheckDigit t) := by
  unfold Src.add_check_digit Card.addCheckDigit
  rw [calc_eq t h]
  rfl

theorem getItem_last (t : Text) :
    Rt.getItem t (-(1 : Int)) = match t.getLast? with | some l => .ok l | none => .escape .indexError := by
  unfold Rt.getItem
  cases t with
  | nil => rfl
  | cons a as =>
    have hlt : (-(1 : Int)) < 0 := by decide
    simp only [hlt, if_true]
    have hj : ¬ (((a :: as).length : Int) + -(1 : Int) < 0) := by simp only [List.length_cons]; omega
    rw [if_neg hj]
    have hn : (((a :: as).length : Int) + -(1 : Int)).toNat = (a :: as).length - 1 := by
      simp only [List.length_cons]; omega
    rw [hn, List.getLast?_eq_getElem?]
    cases (a :: as)[(a :: as).length - 1]? <;> rfl

/-- `validate_check_digit`: accepted / AssertionError / IndexError exactly as the model says -/
theorem validate_eq (t : Text) (h : PlainDigits t) : Src.validate_check_digit t = Card.validateText t := by
  unfold Src.validate_check_digit Card.validateText
  have hs : Rt.slice t (some (0 : Int)) (some (-(1 : Int))) = t.dropLast := by
    simp only [Rt.slice, bound_nonneg _ _ (Int.le_refl 0), bound_neg _ _ (show (-(1 : Int)) < 0 by decide)]
    rw [List.dropLast_eq_take]
    simp
  rw [hs, calc_eq _ (plain_dropLast h), getItem_last]
  simp only [Outcome.bind]
  cases t.getLast? with
  | none => rfl
  | some l =>
    simp only []
    by_cases he : Card.calcText t.dropLast = [l]
    · simp [he]
    · simp [he]

/-! ### the properties, carried over to the translated source -/

theorem plain_of_digits (ds : List Nat) (h : ∀ d ∈ ds, d < 10) : PlainDigits (ds.map (· + 48)) := by
  intro c hc _
  obtain ⟨d, hd, rfl⟩ := List.mem_map.mp hc
  have := h d hd
  omega

/-- C15 for the code as translated: on a digit string, `validate_check_digit` returns normally
    exactly for the Luhn-valid numbers and raises AssertionError for all others -/
theorem C15_source (ds : List Nat) (c : Nat) (hc : c < 10) (hds : Props.C15.Digits ds) :
    (Src.validate_check_digit ((ds ++ [c]).map (· + 48)) = .ok () ↔ Props.C15.luhnValid (ds ++ [c])) ∧
    (Src.validate_check_digit ((ds ++ [c]).map (· + 48)) = .ok () ∨
     Src.validate_check_digit ((ds ++ [c]).map (· + 48)) = .escape .assertionError) := by
  have hp : PlainDigits ((ds ++ [c]).map (· + 48)) := by
    apply plain_of_digits
    intro d hd
    rcases List.mem_append.mp hd with h | h
    · exact hds d h
    · have : d = c := by simpa using h
      omega
  rw [validate_eq _ hp]
  exact Props.C15.C15_validateText ds c hc hds

/-- C15 for the code as translated: appending the computed digit always validates -/
theorem C15_source_add (t : Text) (h : PlainDigits t) :
    ∃ n, Src.add_check_digit t = .ok n ∧ Card.validateText n = .ok () := by
  refine ⟨_, add_eq t h, Props.C15.C15_add_then_validate t⟩

/-- C16 for the code as translated: `mask` keeps the length, the first six and the last four, and
    every position in between holds the mask character -/
theorem C16_source (pan : Text) (m : Nat) (h : 10 ≤ pan.length) :
    (Src.mask pan [m]).length = pan.length ∧ (Src.mask pan [m]).take 6 = pan.take 6 ∧
    (Src.mask pan [m]).drop ((Src.mask pan [m]).length - 4) = pan.drop (pan.length - 4) ∧
    ∀ i, 6 ≤ i → i < pan.length - 4 → (Src.mask pan [m])[i]? = some m := by
  rw [mask_eq]
  exact ⟨Props.C16.C16_length pan m h, Props.C16.C16_first6 pan m h, Props.C16.C16_last4 pan m h,
    fun i h6 h4 => Props.C16.C16_middle pan m h i h6 h4⟩

end Cardutil.SrcTie
