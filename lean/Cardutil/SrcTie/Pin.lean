import Cardutil.SrcTie.Base
import Cardutil.Gen.Src
import Cardutil.Model.PinBlock
import Cardutil.Props.C13
import Cardutil.Props.C14
import Cardutil.Lemmas.Pin
/-
  Source tie for `cardutil.pinblock` and `cardutil.key` (C13, C14): the translated `Iso0PinBlock.to_bytes` /
  `from_bytes`, `Iso4PinBlock.to_bytes` / `from_bytes`, the decimalisation at the end of `calculate_pvv` and the
  combination loop of `get_zone_master_key` ARE the hand-written models `Pin.iso0ToBytes`, `Pin.iso0FromBytes`,
  `Pin.iso4ToBytes`, `Pin.iso4FromBytes`, `Pin.decimalise` and `Pin.combine`, for all inputs.
-/
namespace Cardutil.SrcTie

open Cardutil Cardutil.Py Cardutil.Digits

/-- `int(s, 16)` followed by a continuation: the model's `intHex`, the value used as an `Int` -/
theorem intHex_bind {β} (s : Text) (f : Int → Outcome β) :
    Outcome.bind (Rt.intHex s) f = Outcome.bind (Pin.intHex s) (fun n => f (n : Int)) := by
  unfold Rt.intHex
  cases Pin.intHex s <;> rfl

theorem xor_nat (a b : Nat) : Rt.xor (a : Int) (b : Int) = ((a ^^^ b : Nat) : Int) := by
  simp [Rt.xor]

theorem toBytes8 (v : Nat) :
    Rt.toBytes 8 (v : Int) = if v < 2 ^ 64 then .ok (toDigits 256 8 v) else .escape .overflowError := by
  unfold Rt.toBytes
  have h : (256 : Nat) ^ 8 = 2 ^ 64 := by decide
  simp [h]

theorem slice_m13_m1 (pan : Text) : Rt.slice pan (some (-(13 : Int))) (some (-(1 : Int))) = Pin.rightmost12 pan := by
  rw [slice_neg_neg _ _ _ (by decide) (by decide)]
  rfl


theorem fmtHex_len (pin : Text) : Rt.fmtHex (Rt.len pin) = Pin.lenField pin := by
  simp [Rt.fmtHex, Rt.len, Pin.lenField]

theorem ljust16 (c : Nat) (s : Text) : Rt.ljust (16 : Int) c s = Pin.ljust 16 c s := rfl

theorem fmtHexW16 (v : Nat) : Rt.fmtHexW (16 : Int) (v : Int) = (Pin.fmtHexW 16 v).map Pin.hexChar := by
  simp [Rt.fmtHexW]

/-- `Iso0PinBlock.to_bytes` -/
theorem iso0_to_bytes_eq (pin pan : Text) : Src.Iso0PinBlock_to_bytes pin pan = Pin.iso0ToBytes pin pan := by
  unfold Src.Iso0PinBlock_to_bytes Pin.iso0ToBytes
  simp only [slice_m13_m1, intHex_bind, xor_nat, toBytes8, bind_ok_right, fmtHex_len, ljust16]
  rfl

/-- `Iso0PinBlock.from_bytes(...)` : the pin of the object it builds -/
theorem iso0_from_bytes_eq (blk : Bytes) (pan : Text) :
    Src.Iso0PinBlock_from_bytes blk pan = Pin.iso0FromBytes blk pan := by
  unfold Src.Iso0PinBlock_from_bytes Pin.iso0FromBytes
  simp only [slice_m13_m1, intHex_bind, Rt.intFromBytes, xor_nat, fmtHexW16]
  have h12 : ∀ l : Text, Rt.slice l (some (1 : Int)) (some (2 : Int)) = (l.drop 1).take 1 :=
    fun l => slice_nat l 1 2 (by decide)
  have h2n : ∀ (l : Text) (n : Nat), Rt.slice l (some (2 : Int)) (some ((2 : Int) + (n : Int))) = (l.drop 2).take n := by
    intro l n
    have := slice_nat l 2 (2 + n) (by omega)
    simpa using this
  simp only [h12, h2n]
  rfl

/-- `Iso4PinBlock.to_bytes` for an object created with the random value `rnd` -/
theorem iso4_to_bytes_eq (pin : Text) (rnd : Nat) :
    Src.Iso4PinBlock_to_bytes pin (rnd : Int) = Pin.iso4ToBytes pin rnd := by
  unfold Src.Iso4PinBlock_to_bytes Pin.iso4ToBytes
  simp only [bind_ok_right, fmtHex_len, ljust16, fmtHexW16]
  rfl

def IsBytes (b : Bytes) : Prop := ∀ x ∈ b, x < 256

/-- `binascii.hexlify` of bytes: the nibbles as lowercase hex digits -/
theorem hexlify_eq (b : Bytes) (h : IsBytes b) : Rt.hexlify b = (Pin.bytesToNibbles b).map Pin.hexChar := by
  induction b with
  | nil => rfl
  | cons x xs ih =>
    have hx : x < 256 := h x (by simp)
    have hxs : IsBytes xs := fun y hy => h y (by simp [hy])
    have ih' := ih hxs
    simp only [Rt.hexlify, Pin.bytesToNibbles, List.flatMap_cons, List.map_append, List.map_cons, List.map_nil] at ih' ⊢
    rw [ih']
    have : x / 16 % 16 = x / 16 := by omega
    rw [this]
    rfl

/-- `Iso4PinBlock.from_bytes(...)`: the pin of the object it builds -/
theorem iso4_from_bytes_eq (blk : Bytes) (h : IsBytes blk) :
    Src.Iso4PinBlock_from_bytes blk = Pin.iso4FromBytes blk := by
  unfold Src.Iso4PinBlock_from_bytes Pin.iso4FromBytes
  simp only [hexlify_eq blk h, intHex_bind]
  have h12 : ∀ l : Text, Rt.slice l (some (1 : Int)) (some (2 : Int)) = (l.drop 1).take 1 :=
    fun l => slice_nat l 1 2 (by decide)
  have h2n : ∀ (l : Text) (n : Nat), Rt.slice l (some (2 : Int)) (some ((2 : Int) + (n : Int))) = (l.drop 2).take n := by
    intro l n
    have := slice_nat l 2 (2 + n) (by omega)
    simpa using this
  simp only [h12, h2n]
  rfl

/-! ### the decimalisation at the end of `calculate_pvv` -/

theorem digit_class : ∀ n, n < 16 → Gen.strDigits.contains (Pin.hexChar n) = decide (n < 10) := by decide

theorem alpha_class : ∀ n, n < 16 → Rt.isAlphaAscii (Pin.hexChar n) = decide (10 ≤ n) := by decide

theorem letter_value : ∀ n, n < 16 → 10 ≤ n →
    Outcome.bind (Rt.intHex [Pin.hexChar n]) (fun t1 => Outcome.ok (Rt.strOfInt (t1 - (10 : Int)))) =
      .ok [48 + (n - 10)] := by decide +kernel

theorem filter_digits (ns : List Nat) (h : ∀ n ∈ ns, n < 16) :
    List.filter (fun v => Gen.strDigits.contains v) (ns.map Pin.hexChar) = (ns.filter (· < 10)).map Pin.hexChar := by
  induction ns with
  | nil => rfl
  | cons n ns ih =>
    have hn := digit_class n (h n (by simp))
    have ih' := ih (fun m hm => h m (by simp [hm]))
    simp only [List.map_cons, List.filter_cons, hn, ih']
    by_cases c : n < 10 <;> simp [c]

theorem filter_letters (ns : List Nat) (h : ∀ n ∈ ns, n < 16) :
    List.filter (fun v => Rt.isAlphaAscii v) (ns.map Pin.hexChar) =
      (ns.filter (fun n => decide (10 ≤ n))).map Pin.hexChar := by
  induction ns with
  | nil => rfl
  | cons n ns ih =>
    have hn := alpha_class n (h n (by simp))
    have ih' := ih (fun m hm => h m (by simp [hm]))
    simp only [List.map_cons, List.filter_cons, hn, ih']
    by_cases c : 10 ≤ n <;> simp [c]

theorem letters_mapO (l : List Nat) (h : ∀ n ∈ l, n < 16 ∧ 10 ≤ n) :
    Outcome.mapO (fun value => Outcome.bind (Rt.intHex [value]) (fun t1 => Outcome.ok (Rt.strOfInt (t1 - (10 : Int)))))
      (l.map Pin.hexChar) = .ok (l.map (fun n => [48 + (n - 10)])) := by
  induction l with
  | nil => rfl
  | cons n l ih =>
    have hn := letter_value n (h n (by simp)).1 (h n (by simp)).2
    have ih' := ih (fun m hm => h m (by simp [hm]))
    simp only [List.map_cons, Outcome.mapO, hn, ih']
    rfl

theorem join_take_singletons (l : Text) (k : Nat) :
    Rt.joinStr (Rt.slice (l.map (fun ch => [ch])) (some (0 : Int)) (some (k : Int))) = l.take k := by
  rw [slice_0_to _ _ (by omega)]
  simp only [Rt.joinStr, Int.toNat_natCast]
  induction l generalizing k with
  | nil => simp
  | cons x xs ih =>
    cases k with
    | zero => simp
    | succ k => simp [ih k]

theorem join_take4 (l : Text) :
    Rt.joinStr (Rt.slice (l.map (fun ch => [ch])) (some (0 : Int)) (some (4 : Int))) = l.take 4 :=
  join_take_singletons l 4

theorem nibbles_lt (b : Bytes) (h : IsBytes b) : ∀ n ∈ Pin.bytesToNibbles b, n < 16 := by
  intro n hn
  simp only [Pin.bytesToNibbles, List.mem_flatMap] at hn
  obtain ⟨x, hx, hm⟩ := hn
  have := h x hx
  simp at hm
  omega

/-- the last statements of `calculate_pvv` (from `values_pass1 = ...` on), as a function of the ciphertext -/
theorem decimalise_eq (ct : Bytes) (h : IsBytes ct) :
    Src.calculate_pvv_decimalise ct = .ok (Pin.decimalise (Pin.bytesToNibbles ct)) := by
  unfold Src.calculate_pvv_decimalise Pin.decimalise
  have hn := nibbles_lt ct h
  rw [hexlify_eq ct h]
  generalize Pin.bytesToNibbles ct = ns at hn
  simp only [List.map_id', filter_digits ns hn, filter_letters ns hn]
  have hl : ∀ n ∈ ns.filter (fun n => decide (10 ≤ n)), n < 16 ∧ 10 ≤ n := by
    intro n hm
    simp only [List.mem_filter, decide_eq_true_eq] at hm
    exact ⟨hn n hm.1, hm.2⟩
  rw [letters_mapO _ hl]
  have h4 : ∀ l : Text, Rt.slice l (some (0 : Int)) (some (4 : Int)) = l.take 4 := fun l => slice_0_to l 4 (by decide)
  by_cases c : ((ns.filter (· < 10)).map Pin.hexChar).length < 4
  · have c' : decide (Rt.len ((ns.filter (· < 10)).map Pin.hexChar) < (4 : Int)) = true :=
      decide_eq_true (by simp only [Rt.len]; omega)
    rw [if_pos c', if_pos c]
    simp only [Outcome.bind]
    have hm : List.map (fun n => [48 + (n - 10)]) (ns.filter (fun n => decide (10 ≤ n))) =
        List.map (fun ch => [ch]) (List.map (fun n => 48 + (n - 10)) (ns.filter (fun n => decide (10 ≤ n)))) := by
      simp [List.map_map]
    rw [hm, ← List.map_append, join_take4]
  · have c' : ¬ (decide (Rt.len ((ns.filter (· < 10)).map Pin.hexChar) < (4 : Int)) = true) := by
      intro hc
      have := of_decide_eq_true hc
      simp only [Rt.len] at this
      omega
    rw [if_neg c', if_neg c, h4]
    simp

/-! ### the combination loop of `get_zone_master_key` -/

theorem hexNibble_lt {c n : Nat} (h : Pin.hexNibble? c = some n) : n < 16 := by
  unfold Pin.hexNibble? at h
  split at h
  · simp at h; omega
  · split at h
    · simp at h; omega
    · split at h
      · simp at h; omega
      · simp at h

theorem parseHexText_spec : ∀ (t : Text) (ns : List Nat), Pin.parseHexText t = some ns →
    ns.length = t.length ∧ ∀ n ∈ ns, n < 16 := by
  intro t
  induction t with
  | nil => intro ns h; simp [Pin.parseHexText] at h; subst h; simp
  | cons c t ih =>
    intro ns h
    rw [Pin.parseHexText_cons] at h
    cases hc : Pin.hexNibble? c with
    | none => simp [hc] at h
    | some n =>
      cases ht : Pin.parseHexText t with
      | none => simp [hc, ht] at h
      | some ms =>
        simp [hc, ht] at h
        subst h
        obtain ⟨hl, hm⟩ := ih ms ht
        refine ⟨by simp [hl], ?_⟩
        intro x hx
        simp at hx
        rcases hx with rfl | hx
        · exact hexNibble_lt hc
        · exact hm x hx

/-- `int(t, 16) < 16 ** len(t)` -/
theorem intHex_lt {t : Text} {x : Nat} (h : Pin.intHex t = .ok x) : x < 16 ^ t.length := by
  unfold Pin.intHex at h
  split at h
  · rename_i n ns hp
    obtain ⟨hl, hm⟩ := parseHexText_spec t (n :: ns) hp
    simp only [Outcome.ok.injEq] at h
    subst h
    rw [← hl]
    exact fromDigits_lt _ hm
  · simp at h

/-- text written with `f'{v:0{w}x}'` reads back as `v` -/
theorem intHex_toDigits (w v : Nat) (hw : 1 ≤ w) (hv : v < 16 ^ w) :
    Pin.intHex ((toDigits 16 w v).map Pin.hexChar) = .ok v := by
  have hp := Pin.parseHexText_hexChars (toDigits 16 w v) (toDigits_lt (by decide) w v)
  have hl : (toDigits 16 w v).length = w := length_toDigits 16 w v
  match hd : toDigits 16 w v, hl with
  | [], hl => simp at hl; omega
  | n :: ns, _ =>
    rw [hd] at hp
    rw [Pin.intHex_of_parse hp, ← hd, fromDigits_toDigits w v hv]

/-- one pass of the loop body -/
def combineStep (st key_part : Text) : Outcome Text :=
  Outcome.bind (Rt.intHex st) (fun t1 =>
    Outcome.bind (Rt.intHex key_part) (fun t2 =>
      .ok (Rt.fmtHexW (max (Rt.len st) (Rt.len key_part)) (Rt.xor t1 t2))))

theorem pow16_two (w : Nat) : (16 : Nat) ^ w = 2 ^ (4 * w) := by
  rw [show (16 : Nat) = 2 ^ 4 by decide, ← Nat.pow_mul]

theorem combineStep_ok (w v : Nat) (part : Text) (x : Nat) (hw : 1 ≤ w) (hv : v < 16 ^ w)
    (hx : Pin.intHex part = .ok x) :
    combineStep ((toDigits 16 w v).map Pin.hexChar) part =
      .ok ((toDigits 16 (max w part.length) (v ^^^ x)).map Pin.hexChar) ∧ v ^^^ x < 16 ^ (max w part.length) := by
  have hxl := intHex_lt hx
  have hlt : v ^^^ x < 16 ^ (max w part.length) := by
    rw [pow16_two] at hv hxl ⊢
    apply Nat.xor_lt_two_pow
    · exact Nat.lt_of_lt_of_le hv (Nat.pow_le_pow_right (by decide) (by omega))
    · exact Nat.lt_of_lt_of_le hxl (Nat.pow_le_pow_right (by decide) (by omega))
  refine ⟨?_, hlt⟩
  unfold combineStep
  rw [intHex_bind, intHex_toDigits w v hw hv, bind_ok_eq, intHex_bind, hx, bind_ok_eq]
  simp only [xor_nat, Rt.len, List.length_map, length_toDigits]
  have hm : max (w : Int) (part.length : Int) = ((max w part.length : Nat) : Int) := by omega
  rw [hm]
  simp only [Rt.fmtHexW, Int.toNat_natCast, Pin.fmtHexW, hlt, if_true]

theorem combineStep_err (w v : Nat) (part : Text) (k : ExcKind) (hw : 1 ≤ w) (hv : v < 16 ^ w)
    (hx : Pin.intHex part = .escape k) :
    combineStep ((toDigits 16 w v).map Pin.hexChar) part = .escape k := by
  unfold combineStep
  rw [intHex_bind, intHex_toDigits w v hw hv, bind_ok_eq, intHex_bind, hx]
  rfl

theorem intHex_cases (t : Text) : (∃ x, Pin.intHex t = .ok x) ∨ Pin.intHex t = .escape .valueError := by
  unfold Pin.intHex
  split
  · exact Or.inl ⟨_, rfl⟩
  · exact Or.inr rfl

/-- the loop, from any accumulated text `f'{v:0{w}x}'` with `v < 16^w` -/
theorem combine_loop : ∀ (parts : List Text) (w v : Nat), 1 ≤ w → v < 16 ^ w →
    Rt.forO combineStep parts ((toDigits 16 w v).map Pin.hexChar) =
      Outcome.bind (Outcome.mapO Pin.intHex parts) (fun vals =>
        .ok ((Pin.fmtHexW (parts.foldl (fun w p => max w p.length) w) (vals.foldl (· ^^^ ·) v)).map Pin.hexChar)) := by
  intro parts
  induction parts with
  | nil =>
    intro w v _ hv
    simp [Rt.forO, Outcome.mapO, Outcome.bind, Pin.fmtHexW, hv]
  | cons part parts ih =>
    intro w v hw hv
    rcases intHex_cases part with ⟨x, hx⟩ | hx
    · obtain ⟨hs, hlt⟩ := combineStep_ok w v part x hw hv hx
      simp only [Rt.forO, hs, Outcome.bind, Outcome.mapO, hx, List.foldl_cons]
      rw [ih (max w part.length) (v ^^^ x) (by omega) hlt]
      cases Outcome.mapO Pin.intHex parts <;> rfl
    · simp only [Rt.forO, combineStep_err w v part _ hw hv hx, Outcome.bind, Outcome.mapO, hx]

/-- the statements of `get_zone_master_key` up to `binary_key = ...`: the clear key text -/
theorem combine_eq (parts : List Text) : Src.get_zone_master_key_combine parts = Pin.combine parts := by
  unfold Src.get_zone_master_key_combine Pin.combine
  simp only [bind_ok_right]
  have h0 : Rt.mulSeq [48, 48] (16 : Int) = (toDigits 16 32 0).map Pin.hexChar := by decide
  rw [h0]
  exact combine_loop parts 32 0 (by decide) (by decide)

theorem nibblesToBytes_isBytes : ∀ (ns : List Nat), (∀ n ∈ ns, n < 16) → IsBytes (Pin.nibblesToBytes ns)
  | [], _ => by intro x hx; simp [Pin.nibblesToBytes] at hx
  | [_], _ => by intro x hx; simp [Pin.nibblesToBytes] at hx
  | a :: b :: rest, h => by
    intro x hx
    simp only [Pin.nibblesToBytes, List.mem_cons] at hx
    rcases hx with rfl | hx
    · have := h a (by simp); have := h b (by simp); omega
    · exact nibblesToBytes_isBytes rest (fun n hn => h n (by simp [hn])) x hx

theorem nibbles_length (b : Bytes) {k : Nat} (h : b.length = k) : (Pin.bytesToNibbles b).length = 2 * k := by
  subst h
  induction b with
  | nil => rfl
  | cons x xs ih => simp only [Pin.bytesToNibbles, List.flatMap_cons, List.length_append, List.length_cons] at ih ⊢; simp only [List.length_nil]; omega

/-! ### C13 and C14 restated for the translated code -/

theorem isBytes_toDigits (w v : Nat) : IsBytes (toDigits 256 w v) := toDigits_lt (by decide) w v

/-- C13, format 0, for the TRANSLATED `Iso0PinBlock.to_bytes` / `from_bytes`: every PIN of 4..12 digits with every PAN
    of 13 or more digits gives an 8-byte block whose nibbles are P1 XOR P2, and reading it back gives the PIN -/
theorem C13_source_iso0 (pin pan : Text) (hpin : Pin.AllDigits pin) (hl4 : 4 ≤ pin.length) (hl12 : pin.length ≤ 12)
    (hpan : Pin.AllDigits pan) (hpl : 13 ≤ pan.length) :
    ∃ blk, Src.Iso0PinBlock_to_bytes pin pan = .ok blk ∧ blk.length = 8 ∧
      Pin.bytesToNibbles blk = List.zipWith (· ^^^ ·) (Pin.p1Nibbles pin) (Pin.p2Nibbles pan) ∧
      Src.Iso0PinBlock_from_bytes blk pan = .ok pin := by
  simp only [iso0_to_bytes_eq, iso0_from_bytes_eq]
  exact Props.C13.C13_iso0 pin pan hpin hl4 hl12 hpan hpl

/-- C13, format 4, for the TRANSLATED `Iso4PinBlock.to_bytes` / `from_bytes` -/
theorem C13_source_iso4 (pin : Text) (rnd : Nat) (hpin : Pin.AllDigits pin) (hl4 : 4 ≤ pin.length) (hl12 : pin.length ≤ 12)
    (hr : rnd < 2 ^ 64) :
    ∃ blk, Src.Iso4PinBlock_to_bytes pin (rnd : Int) = .ok blk ∧ blk.length = 16 ∧
      Pin.bytesToNibbles blk = Pin.f4Nibbles pin ++ toDigits 16 16 rnd ∧
      Src.Iso4PinBlock_from_bytes blk = .ok pin := by
  obtain ⟨blk, h1, h2, h3, h4⟩ := Props.C13.C13_iso4 pin rnd hpin hl4 hl12 hr
  refine ⟨blk, by rw [iso4_to_bytes_eq]; exact h1, h2, h3, ?_⟩
  have hb : IsBytes blk := by
    -- the block is `unhexlify` of hex text: pairs of nibbles
    have : Pin.iso4ToBytes pin rnd = .ok blk := h1
    unfold Pin.iso4ToBytes Pin.unhexlify at this
    split at this
    · rename_i ns hp
      split at this
      · simp only [Outcome.ok.injEq] at this
        subst this
        have hn := (parseHexText_spec _ ns hp).2
        exact nibblesToBytes_isBytes ns hn
      · simp at this
    · simp at this
  rw [iso4_from_bytes_eq blk hb]
  exact h4

/-- C14, PVV, for the TRANSLATED decimalisation: whatever 8 bytes the cipher returns, the result is four decimal
    digits: the first scan's digits in order, topped up from the second scan (A–F read as 0–5) -/
theorem C14_source_decimalise (ct : Bytes) (hlen : ct.length = 8) (hb : IsBytes ct) :
    ∃ r, Src.calculate_pvv_decimalise ct = .ok r ∧ r.length = 4 ∧ Pin.AllDigits r ∧
      r = Pin.decimalise (Pin.bytesToNibbles ct) := by
  refine ⟨_, decimalise_eq ct hb, ?_, ?_, rfl⟩
  · exact (Props.C14.C14_decimalise _ (nibbles_length ct hlen) (nibbles_lt ct hb)).1
  · exact (Props.C14.C14_decimalise _ (nibbles_length ct hlen) (nibbles_lt ct hb)).2.1

/-- C14, key components, for the TRANSLATED combination loop: components of `L ≥ 32` hex digits each give the
    `L`-digit text of their XOR — independent of their order, a component given twice cancels -/
theorem C14_source_combine (L : Nat) (hL : 32 ≤ L) (parts : List (List Nat))
    (h : ∀ p ∈ parts, p.length = L ∧ ∀ n ∈ p, n < 16) (hne : parts ≠ [] ∨ L = 32) :
    Src.get_zone_master_key_combine (parts.map (·.map Pin.hexChar)) =
      .ok ((toDigits 16 L (Pin.combineVal (parts.map (fromDigits 16)))).map Pin.hexChar) := by
  rw [combine_eq]
  exact Props.C14.C14_combine_text_w L hL parts h hne

end Cardutil.SrcTie
