import Cardutil.SrcTie.RoundTrip
import Cardutil.SrcTie.IpmReader
/-
  Source tie for the message writer (C06):
  `IpmWriter.write` (the message encoder an EXTERNAL function of the message, then the base
  class's `write` through `super()`), `IpmWriter.write_many`, and — together with the translated `close`, the translated
  `VbsReader.__next__` and the translated `IpmReader.__next__` — the IPM file round trip for the code as written:
  whatever encoder and decoder are used, if the decoder returns each of these messages from what the encoder made of
  it (and the encoded record is non-empty and within the configured maximum), the messages written are the messages
  read back, in order, followed by end of data.
-/
namespace Cardutil.SrcTie

open Cardutil Cardutil.Py Cardutil.Vbs

abbrev Dumps := Rt.SDict Rt.PyVal → Outcome Bytes
abbrev Msg := Rt.SDict Rt.PyVal

/-- two lists of the same length whose members are related position by position -/
inductive Paired {α β} (R : α → β → Prop) : List α → List β → Prop
  | nil : Paired R [] []
  | cons {a b as bs} : R a b → Paired R as bs → Paired R (a :: as) (b :: bs)

/-- the translated `IpmWriter.write`: encode, then the base class's write -/
theorem ipm_write_eq (D : Dumps) (fin : Bool) (data : Bytes) (pos : Int) (m : Msg) :
    Src.IpmWriter_write D fin data pos m = (D m).bind (fun r => Src.VbsWriter_write fin data pos r) := by
  unfold Src.IpmWriter_write
  refine congrArg (Outcome.bind (D m)) (funext fun r => ?_)
  exact bind_ok_right _

/-- a message the encoder refuses leaves the file untouched: the error is the encoder's, nothing was written -/
theorem C06_source_refused_message_writes_nothing (D : Dumps) (fin : Bool) (data : Bytes) (pos : Int) (m : Msg)
    (h : D m = Outcome.dataError) : Src.IpmWriter_write D fin data pos m = Outcome.dataError := by
  rw [ipm_write_eq, h]; rfl

/-- `for m in ms: self.write(m)` with the translated message writer -/
def srcIpmWriteAll (D : Dumps) : Bool × (Bytes × Int) → List Msg → Outcome (Bool × (Bytes × Int))
  | st, [] => .ok st
  | st, m :: ms => (Src.IpmWriter_write D st.1 st.2.1 st.2.2 m).bind (fun st' => srcIpmWriteAll D st' ms)

theorem ipm_write_many_eq (D : Dumps) (ms : List Msg) : ∀ (fin : Bool) (data : Bytes) (pos : Int),
    Src.IpmWriter_write_many D fin data pos ms = srcIpmWriteAll D (fin, (data, pos)) ms := by
  unfold Src.IpmWriter_write_many
  induction ms with
  | nil => intros; rfl
  | cons m ms ih =>
    intro fin data pos
    rw [Rt.forO, srcIpmWriteAll]
    simp only []
    cases h : Src.IpmWriter_write D fin data pos m with
    | ok st => simp only [bind_ok_eq]; exact ih st.1 st.2.1 st.2.2
    | dataError => rfl
    | escape k => rfl
    | diverge => rfl

/-- writing messages is writing their encodings -/
theorem ipm_write_all_records (D : Dumps) (ms : List Msg) (recs : List Bytes)
    (hd : Paired (fun m r => D m = .ok r) ms recs) : ∀ (st : Bool × (Bytes × Int)),
    srcIpmWriteAll D st ms = srcWriteAll st recs := by
  induction hd with
  | nil => intro st; rfl
  | cons hmr _ ih =>
    intro st
    rw [srcIpmWriteAll, srcWriteAll, ipm_write_eq, hmr, bind_ok_eq]
    cases Src.VbsWriter_write st.1 st.2.1 st.2.2 _ with
    | ok st' => simp only [bind_ok_eq]; exact ih st'
    | dataError => rfl
    | escape k => rfl
    | diverge => rfl

/-- `list(reader)` with the translated `IpmReader.__next__` -/
def srcIpmReadAll (L : Loads) : Nat → Int × (Bytes × Bytes) → List Msg × End
  | 0, _ => ([], .fuel)
  | fuel + 1, st =>
    match Src.IpmReader_next L st.1 st.2.1 st.2.2 with
    | .ok (.ret r) => let x := srcIpmReadAll L fuel r.2; (r.1 :: x.1, x.2)
    | .ok .stop => ([], .eof)
    | .ok (.libError n ctx) => ([], .dataError n.toNat ctx)
    | .dataError => ([], .escape .other)
    | .escape k => ([], .escape k)
    | .diverge => ([], .diverge)

/-- reading messages is reading records and decoding each: when the framing iteration delivers `recs` and then ends,
    and the decoder accepts each of them, the message iteration delivers the decoded messages and then ends -/
theorem ipm_read_all_records (L : Loads) (ms : List Msg) (recs : List Bytes)
    (hl : Paired (fun m r => L r = .ok m) ms recs) : ∀ (fuel recno : Nat) (last : Option Bytes) (src : Bytes),
    readAll plainSrc Gen.maxVbsRecordLength fuel ⟨src, recno, last⟩ = (recs, .eof) →
    srcIpmReadAll L fuel ((recno : Int), (last.getD [], src)) = (ms, .eof) := by
  induction hl with
  | nil =>
    intro fuel recno last src h
    cases fuel with
    | zero => simp [readAll] at h
    | succ fuel =>
      rw [srcIpmReadAll]
      simp only [ipm_next_eq]
      rw [readAll] at h
      cases hn : next plainSrc Gen.maxVbsRecordLength ⟨src, recno, last⟩ with
      | record r st => rw [hn] at h; simp at h
      | done e =>
        rw [hn] at h
        simp only [Prod.mk.injEq, true_and] at h
        subst h
        rfl
  | @cons m r ms recs hmr _ ih =>
    intro fuel recno last src h
    cases fuel with
    | zero => simp [readAll] at h
    | succ fuel =>
      rw [srcIpmReadAll]
      simp only [ipm_next_eq]
      rw [readAll] at h
      cases hn : next plainSrc Gen.maxVbsRecordLength ⟨src, recno, last⟩ with
      | record r' st =>
        rw [hn] at h
        simp only [Prod.mk.injEq, List.cons.injEq] at h
        obtain ⟨⟨hr, hrest⟩, hend⟩ := h
        subst hr
        simp only [hmr]
        have := ih fuel st.recno st.last st.src (Prod.ext hrest hend)
        rw [this]
      | done e => rw [hn] at h; simp at h

/-- C06 for the code as translated, writer AND reader, for ANY encoder and decoder: if the decoder gives back each of
    these messages from its encoding, and each encoding is a non-empty record within the configured maximum, then
    `write_many`, `close`, and iterating the reader returns exactly the messages written, in order, then end of data -/
theorem C06_source_roundtrip (D : Dumps) (L : Loads) (ms : List Msg) (hmax : Gen.maxVbsRecordLength < 4294967296)
    (h : ∀ m ∈ ms, ∃ r, D m = .ok r ∧ L r = .ok m ∧ 0 < r.length ∧ r.length ≤ Gen.maxVbsRecordLength) :
    ∃ st1 st2, Src.IpmWriter_write_many D false [] (0 : Int) ms = .ok st1 ∧
      Src.VbsWriter_close st1.1 st1.2.1 st1.2.2 = .ok st2 ∧
      srcIpmReadAll L (st2.2.1.length + 1) ((1 : Int), ([], st2.2.1)) = (ms, .eof) := by
  -- the records
  have hrecs : ∃ recs : List Bytes, Paired (fun m r => D m = .ok r) ms recs ∧
      Paired (fun m r => L r = .ok m) ms recs ∧
      ∀ r ∈ recs, 0 < r.length ∧ r.length ≤ Gen.maxVbsRecordLength := by
    clear hmax
    induction ms with
    | nil => exact ⟨[], .nil, .nil, by simp⟩
    | cons m ms ih =>
      obtain ⟨r, hd, hl, hlen⟩ := h m (by simp)
      obtain ⟨recs, h1, h2, h3⟩ := ih (fun x hx => h x (by simp [hx]))
      refine ⟨r :: recs, .cons hd h1, .cons hl h2, ?_⟩
      intro x hx
      rcases List.mem_cons.mp hx with rfl | hx
      · exact hlen
      · exact h3 x hx
  obtain ⟨recs, hD, hL, hlen⟩ := hrecs
  obtain ⟨st1, st2, hw, hc, hr⟩ := C03_source_roundtrip recs hmax hlen
  refine ⟨st1, st2, ?_, hc, ?_⟩
  · rw [ipm_write_many_eq, ipm_write_all_records D ms recs hD]; exact hw
  · have h1 := src_read_all_eq (st2.2.1.length + 1) 1 none st2.2.1
    simp only [Option.getD_none] at h1
    rw [show ((1 : Nat) : Int) = (1 : Int) from rfl] at h1
    rw [h1] at hr
    have := ipm_read_all_records L ms recs hL (st2.2.1.length + 1) 1 none st2.2.1 hr
    simpa using this

/-- the hypothesis is satisfiable: one message, an encoder and decoder that are inverse on it -/
example : ∃ (D : Dumps) (L : Loads) (m : Msg),
    D m = .ok [0x31] ∧ L [0x31] = .ok m ∧ 0 < ([0x31] : Bytes).length :=
  ⟨fun _ => .ok [0x31], fun _ => .ok [], [], rfl, rfl, by decide⟩

end Cardutil.SrcTie
