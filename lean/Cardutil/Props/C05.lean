import Cardutil.Lemmas.Vbs
/-
  C05 — 1014 unblocking: reads return the exact payload stream for every read sequence.

  `Unblock.runReads P ⟨file, []⟩ ns` models a fresh `Unblock1014(file)` receiving the read history
  `ns` (`some n` = `read(n)` with `n > 0`; `none` = `read()` / `read(0)`, "no size").
  `payloads P file` is the payload stream: the first `P` bytes of every `P+2`-byte block (a short
  last block contributes what it has).  No bound on file size, history length or read sizes.
-/
namespace Cardutil.Props.C05

open Cardutil Cardutil.Block Cardutil.Unblock

/-- C05(a): every history of reads returns the successive slices of the payload stream: a sized
    read gives exactly the requested number of bytes or all that remain; a read with no size gives
    everything that remains (and later reads give nothing). Any file content, well-formed or not. -/
theorem C05_reads (file : Bytes) (ns : List (Option Nat)) :
    runReads 1012 ⟨file, []⟩ ns = specReads (payloads 1012 file) ns := by
  have := runReads_spec 1012 ⟨file, []⟩ ns
  simpa [remaining] using this

/-- the same from any intermediate unblocker state (buffer + unread file) -/
theorem C05_reads_any_state (s : St) (ns : List (Option Nat)) :
    runReads 1012 s ns = specReads (remaining 1012 s) ns :=
  runReads_spec 1012 s ns

/-- C05(b): record reading from a blocked file yields the same records, the same ending and the
    same error context as reading the equivalent unblocked stream (its payload stream). -/
theorem C05_records (maxLen fuel : Nat) (file : Bytes) :
    Vbs.readAll (unblockSrc 1012) maxLen fuel (Vbs.init ⟨file, []⟩) =
      Vbs.readAll plainSrc maxLen fuel (Vbs.init (payloads 1012 file)) := by
  have := Vbs.readAll_unblock 1012 maxLen fuel ⟨file, []⟩ 1 none
  simpa [Vbs.init, remaining] using this

/-- C05(c): the validating one-shot unblocker succeeds exactly on a whole number of blocks with
    correct trailers, and then returns the payload stream. -/
theorem C05_unblock_iff (f : Bytes) :
    unblock 1012 f = if wellBlocked 1012 f then some (payloads 1012 f) else none :=
  unblock_iff 1012 f

/-- C05(d): it inverts the one-shot blocker up to 0x40 fill … -/
theorem C05_unblock_block (d : Bytes) :
    ∃ k, k < 1012 ∧ unblock 1012 (blockify 1012 d) = some (d ++ List.replicate k padByte) := by
  obtain ⟨k, hk, _, hp⟩ := payloads_blockify (P := 1012) (by decide) d
  exact ⟨k, hk, by rw [unblock_iff, wellBlocked_blockify (P := 1012) (by decide), hp]; rfl⟩

/-- … and refuses a truncated input (not a whole number of blocks): any non-empty input shorter
    than one block, and more generally any input whose last block is short. -/
theorem C05_unblock_refuses_short (bs : List Bytes) (hb : Blocks 1012 bs) (t : Bytes)
    (h0 : t ≠ []) (h1 : t.length < 1014) : unblock 1012 (bs.flatten ++ t) = none := by
  induction bs with
  | nil =>
    rw [List.flatten_nil, List.nil_append, unblock]
    have : t.length ≠ 0 := by simpa using h0
    simp [this, h1]
  | cons b bs ih =>
    obtain ⟨hl, _⟩ := hb b (by simp)
    simp only [List.flatten_cons, List.append_assoc]
    rw [unblock_cons _ hl, ih (fun x hx => hb x (by simp [hx]))]
    split <;> rfl

/-- … and an input one of whose blocks has a wrong trailer. -/
theorem C05_unblock_refuses_trailer (pre : List Bytes) (hb : Blocks 1012 pre) (b : Bytes) (rest : Bytes)
    (hl : b.length = 1014) (hbad : b.drop 1012 ≠ PP) : unblock 1012 (pre.flatten ++ (b ++ rest)) = none := by
  induction pre with
  | nil =>
    rw [List.flatten_nil, List.nil_append, unblock_cons _ hl]
    simp [hbad]
  | cons c cs ih =>
    obtain ⟨hc, _⟩ := hb c (by simp)
    simp only [List.flatten_cons, List.append_assoc]
    rw [unblock_cons _ hc, ih (fun x hx => hb x (by simp [hx]))]
    split <;> rfl

-- sanity tests (evaluated): two blocks of P=3, reads 2, 2, none
#guard runReads 3 ⟨[1, 2, 3, 64, 64, 4, 5, 6, 64, 64], []⟩ [some 2, some 2, none] == [[1, 2], [3, 4], [5, 6]]
#guard unblock 3 [1, 2, 3, 64, 64, 4, 5, 6, 64, 65] == none

end Cardutil.Props.C05
