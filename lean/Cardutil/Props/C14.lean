import Cardutil.Lemmas.Pin
import Cardutil.Lemmas.Des
/-
  C14 — PVV, key check value and key-part combination match the published algorithms.

  The block cipher (3DES-ECB of one 8-byte block / of 16 zero bytes / of the combined key) is a
  PARAMETER `enc` of every statement: the theorems hold for every function, hence for 3DES under
  every key.  That the implementation calls 3DES-ECB with the right key and data is tied by the
  correspondence check against a from-scratch DES reference (harness/refdes.py).
-/
namespace Cardutil.Props.C14

open Cardutil Cardutil.Pin Cardutil.Digits

/-- the transformed security parameter: 11 rightmost PAN digits excluding the check digit, the key
    index, the LEFTMOST FOUR PIN digits — 16 digits for every PIN of 4 or more digits -/
theorem C14_tsp (pan idx pin : Text) :
    tsp pan idx pin = (pan.take (pan.length - 1)).drop (pan.length - 12) ++ idx ++ pin.take 4 := rfl

theorem C14_tsp_length (pan idx pin : Text) (hpan : 12 ≤ pan.length) (hidx : idx.length = 1)
    (hpin : 4 ≤ pin.length) : (tsp pan idx pin).length = 16 := by
  simp [tsp, rightmost11, List.length_take, List.length_drop, hidx]; omega

/-- the PVV computation succeeds (no cipher-input error) for every PIN of 4–12 digits (indeed of
    any length ≥ 4), every PAN of ≥ 12 digits and every key index digit -/
theorem C14_pvv_defined (enc : Bytes → Bytes) (pan idx pin : Text) (hpan : AllDigits pan)
    (hidx : AllDigits idx) (hpin : AllDigits pin) (hl : 12 ≤ pan.length) (hi : idx.length = 1)
    (hp : 4 ≤ pin.length) :
    ∃ block, block.length = 8 ∧
      pvv enc pin idx pan = .ok (decimalise (bytesToNibbles (enc block))) := by
  have hd : AllDigits (tsp pan idx pin) := by
    intro c hc
    simp only [tsp, rightmost11, List.mem_append] at hc
    rcases hc with (h | h) | h
    · exact hpan c (List.mem_of_mem_take (List.mem_of_mem_drop h))
    · exact hidx c h
    · exact hpin c (List.mem_of_mem_take h)
  have hlen := C14_tsp_length pan idx pin hl hi hp
  have hparse := parseHexText_digits _ hd
  refine ⟨nibblesToBytes ((tsp pan idx pin).map (· - 48)), ?_, ?_⟩
  · have h2 : ∀ ns : List Nat, ns.length = 16 → (nibblesToBytes ns).length = 8 := by
      intro ns h
      match ns, h with
      | [a0,a1,a2,a3,a4,a5,a6,a7,a8,a9,a10,a11,a12,a13,a14,a15], _ => rfl
    exact h2 _ (by simp [hlen])
  · simp [pvv, unhexlify, hparse, hlen]

/-- decimalisation: first scan keeps the decimal digits in order; if fewer than four were found a
    second scan maps A–F to 0–5 in order; the result is ALWAYS four decimal digits -/
theorem C14_decimalise (ct : List Nat) (hlen : ct.length = 16) (hct : ∀ n ∈ ct, n < 16) :
    (decimalise ct).length = 4 ∧ AllDigits (decimalise ct) ∧
    decimalise ct =
      (if 4 ≤ (ct.filter (· < 10)).length then ((ct.filter (· < 10)).map (48 + ·)).take 4
       else ((ct.filter (· < 10)).map (48 + ·) ++ (ct.filter (fun n => decide (10 ≤ n))).map (fun n => 48 + (n - 10))).take 4) := by
  have hmap : (ct.filter (· < 10)).map hexChar = (ct.filter (· < 10)).map (48 + ·) := by
    apply List.map_congr_left
    intro n hn
    have : n < 10 := by simpa using (List.mem_filter.mp hn).2
    simp [hexChar, this]
  have hsplit := filter_split_length (fun n => decide (n < 10)) ct
  have hnot : (ct.filter (fun x => !decide (x < 10))) = ct.filter (fun n => decide (10 ≤ n)) := by
    apply List.filter_congr
    intro x _
    by_cases h : x < 10 <;> simp [h] <;> omega
  rw [hnot, hlen] at hsplit
  have hshape : decimalise ct =
      (if 4 ≤ (ct.filter (· < 10)).length then ((ct.filter (· < 10)).map (48 + ·)).take 4
       else ((ct.filter (· < 10)).map (48 + ·) ++ (ct.filter (fun n => decide (10 ≤ n))).map (fun n => 48 + (n - 10))).take 4) := by
    unfold decimalise
    simp only [hmap, List.length_map]
    by_cases h4 : 4 ≤ (ct.filter (· < 10)).length
    · have : ¬ (ct.filter (· < 10)).length < 4 := by omega
      simp only [this, if_false, List.append_nil, h4, if_true]
    · have : (ct.filter (· < 10)).length < 4 := by omega
      simp only [this, if_true, h4, if_false]
  refine ⟨?_, ?_, hshape⟩
  · rw [hshape]
    by_cases h4 : 4 ≤ (ct.filter (· < 10)).length
    · simp only [h4, if_true, List.length_take, List.length_map]; omega
    · simp only [h4, if_false, List.length_take, List.length_append, List.length_map]; omega
  · rw [hshape]
    intro c hc
    have hall : c ∈ (ct.filter (· < 10)).map (48 + ·) ∨
        c ∈ (ct.filter (fun n => decide (10 ≤ n))).map (fun n => 48 + (n - 10)) := by
      by_cases h4 : 4 ≤ (ct.filter (· < 10)).length
      · simp only [h4, if_true] at hc; exact Or.inl (List.mem_of_mem_take hc)
      · simp only [h4, if_false] at hc; exact List.mem_append.mp (List.mem_of_mem_take hc)
    rcases hall with h | h
    · obtain ⟨n, hn, rfl⟩ := List.mem_map.mp h
      have : n < 10 := by simpa using (List.mem_filter.mp hn).2
      omega
    · obtain ⟨n, hn, rfl⟩ := List.mem_map.mp h
      have h1 : 10 ≤ n := by simpa using (List.mem_filter.mp hn).2
      have h2 := hct n (List.mem_filter.mp hn).1
      omega

/-- combining key components is their XOR: independent of the order of the components … -/
theorem C14_combine_order {a b : List Nat} (h : a.Perm b) : combineVal a = combineVal b :=
  combineVal_perm h

/-- … and a component given twice cancels -/
theorem C14_combine_cancel (p : Nat) (ps : List Nat) : combineVal (p :: p :: ps) = combineVal ps := by
  rw [combineVal_cons, combineVal_cons, ← Nat.xor_assoc, Nat.xor_self, Nat.zero_xor]

theorem C14_combine_single (p : Nat) : combineVal [p] = p := by
  simp [combineVal]

theorem combineWidth_same (L : Nat) (hL : 32 ≤ L) (parts : List Text) (h : ∀ p ∈ parts, p.length = L) (hne : parts ≠ [] ∨ L = 32) :
    combineWidth parts = L := by
  have key : ∀ (ps : List Text) (w : Nat), (∀ p ∈ ps, p.length = L) → w ≤ L →
      ps.foldl (fun w p => max w p.length) w = if ps = [] then w else L := by
    intro ps
    induction ps with
    | nil => intro w _ _; rfl
    | cons p ps ih =>
      intro w hp hw
      simp only [List.foldl_cons, hp p (by simp)]
      rw [ih _ (fun q hq => hp q (by simp [hq])) (by omega)]
      have : max w L = L := by omega
      simp [this]
  unfold combineWidth
  rw [key parts 32 h hL]
  rcases hne with hne | rfl
  · simp [hne]
  · split <;> rfl

/-- text level: components of `L ≥ 32` hex digits each (32 for double-, 48 for triple-length keys) give
    an `L`-hex-digit clear key whose nibbles are the value's base-16 digits -/
theorem C14_combine_text_w (L : Nat) (hL : 32 ≤ L) (parts : List (List Nat))
    (h : ∀ p ∈ parts, p.length = L ∧ ∀ n ∈ p, n < 16) (hne : parts ≠ [] ∨ L = 32) :
    combine (parts.map (·.map hexChar)) =
      .ok ((toDigits 16 L (combineVal (parts.map (fromDigits 16)))).map hexChar) := by
  have hvals : Outcome.mapO intHex (parts.map (·.map hexChar)) = .ok (parts.map (fromDigits 16)) := by
    induction parts with
    | nil => rfl
    | cons p ps ih =>
      obtain ⟨hl, hn⟩ := h p (by simp)
      have hp := parseHexText_hexChars p hn
      have hi : intHex (p.map hexChar) = .ok (fromDigits 16 p) := by
        match p, hl, hp with
        | n :: ns, _, hp => exact intHex_of_parse hp
        | [], hl, _ => simp at hl; omega
      simp only [List.map_cons, Outcome.mapO, hi, Outcome.bind]
      have := ih (fun q hq => h q (by simp [hq]))
      cases ps with
      | nil => rfl
      | cons q qs => rw [this (Or.inl (by simp))]
  have hlt : combineVal (parts.map (fromDigits 16)) < 16 ^ L := by
    have e : (16 : Nat) ^ L = 2 ^ (4 * L) := by
      rw [show (16 : Nat) = 2 ^ 4 by decide, ← Nat.pow_mul]
    rw [e]
    apply combineVal_lt
    intro v hv
    obtain ⟨p, hp, rfl⟩ := List.mem_map.mp hv
    obtain ⟨hl, hn⟩ := h p hp
    have := fromDigits_lt p hn
    rw [hl, e] at this
    exact this
  have hw : combineWidth (parts.map (·.map hexChar)) = L := by
    apply combineWidth_same L hL
    · intro p hp
      obtain ⟨q, hq, rfl⟩ := List.mem_map.mp hp
      simp [(h q hq).1]
    · rcases hne with hne | hne
      · left; simpa using hne
      · right; exact hne
  simp only [combine, hvals, Outcome.bind_ok, hw, fmtHexW, hlt, if_true]

/-- text level: 32-hex-digit components give a 32-hex-digit clear key whose nibbles are the value's
    base-16 digits (for two components: the nibble-wise XOR) -/
theorem C14_combine_text (parts : List (List Nat)) (h : ∀ p ∈ parts, p.length = 32 ∧ ∀ n ∈ p, n < 16) :
    combine (parts.map (·.map hexChar)) =
      .ok ((toDigits 16 32 (combineVal (parts.map (fromDigits 16)))).map hexChar) :=
  C14_combine_text_w 32 (Nat.le_refl _) parts h (Or.inr rfl)

/-- two components: the clear key's nibbles are the nibble-wise XOR of the components' nibbles -/
theorem C14_combine_two (a b : List Nat) (ha : a.length = 32 ∧ ∀ n ∈ a, n < 16) (hb : b.length = 32 ∧ ∀ n ∈ b, n < 16) :
    combine [a.map hexChar, b.map hexChar] = .ok ((List.zipWith (· ^^^ ·) a b).map hexChar) := by
  have := C14_combine_text [a, b] (by intro p hp; simp at hp; rcases hp with rfl | rfl <;> assumption)
  simp only [List.map_cons, List.map_nil] at this
  rw [this, combineVal_cons, C14_combine_single, fromDigits_xor a b (by rw [ha.1, hb.1]) ha.2 hb.2]
  have hz : (List.zipWith (· ^^^ ·) a b).length = 32 := by simp [ha.1, hb.1]
  have := toDigits_fromDigits _ (zipWith_xor_lt16 a b ha.2 hb.2)
  rw [hz] at this
  rw [this]

/-- the key check value is the leading hex digits of the encryption of zeros under the key -/
theorem C14_kcv (enc : Bytes → Bytes) (n : Nat) :
    kcv enc n = ((bytesToNibbles (enc (List.replicate 16 0))).map hexChar).take n := rfl

/-! ### the PVV with Triple DES itself as the cipher -/

open Cardutil.Des (tdesFn)

/-- C14, PVV, with the cipher inside the model: for every PVV key of 8, 16 or 24 bytes, every PIN of at least four
    digits, every PAN of at least twelve digits and every key index digit, the PVV is defined and consists of exactly
    four decimal digits — the two-scan decimalisation of the Triple DES encryption of the TSP -/
theorem C14_pvv_tdes (key : Bytes) (hk : key.length = 8 ∨ key.length = 16 ∨ key.length = 24)
    (pan idx pin : Text) (hpan : AllDigits pan) (hidx : AllDigits idx) (hpin : AllDigits pin)
    (hl : 12 ≤ pan.length) (hi : idx.length = 1) (hp : 4 ≤ pin.length) :
    ∃ v, pvv (tdesFn key) pin idx pan = .ok v ∧ v.length = 4 ∧ AllDigits v := by
  obtain ⟨block, hbl, hv⟩ := C14_pvv_defined (tdesFn key) pan idx pin hpan hidx hpin hl hi hp
  refine ⟨_, hv, ?_⟩
  -- the cipher returns eight bytes
  have hsplit : ∃ k1 k2 k3, Des.splitKey key = some (k1, k2, k3) := by
    unfold Des.splitKey
    rcases hk with h | h | h <;> simp [h]
  obtain ⟨k1, k2, k3, hs⟩ := hsplit
  have hct : Des.tdesEcb false key block = .ok ((Des.blocks8 block).flatMap (Des.encB k1 k2 k3)) := by
    have := Des.ecb_unfold false key block k1 k2 k3 hs (by omega)
    simpa using this
  have hfn : tdesFn key block = (Des.blocks8 block).flatMap (Des.encB k1 k2 k3) := by
    unfold tdesFn; rw [hct]
  have hlen : (tdesFn key block).length = 8 := by
    rw [hfn]
    obtain ⟨_, hn, _⟩ := Des.blocks8_spec 1 block (by omega)
    rw [Des.flatMap_length8 _ _ (fun x _ => Des.encB_length k1 k2 k3 x), hn]
  have hbytes : ∀ x ∈ tdesFn key block, x < 256 := by
    rw [hfn]; exact Des.tdesEcb_isBytes false key block _ hct
  have hnl : (bytesToNibbles (tdesFn key block)).length = 16 := by
    have : ∀ (b : Bytes), (bytesToNibbles b).length = 2 * b.length := by
      intro b
      induction b with
      | nil => rfl
      | cons x xs ih => simp only [bytesToNibbles, List.flatMap_cons, List.length_append] at ih ⊢; simp [ih]; omega
    rw [this, hlen]
  have hnlt : ∀ n ∈ bytesToNibbles (tdesFn key block), n < 16 := by
    intro n hn
    simp only [bytesToNibbles, List.mem_flatMap] at hn
    obtain ⟨x, hx, hm⟩ := hn
    have := hbytes x hx
    simp at hm
    omega
  have := C14_decimalise _ hnl hnlt
  exact ⟨this.1, this.2.1⟩

-- the module documentation's value: PIN 1234, PAN 1111222233334444, key index 1, key 00 x 16 -> PVV 6264
#guard pvv (tdesFn (List.replicate 16 0)) [49,50,51,52] [49] [49,49,49,49,50,50,50,50,51,51,51,51,52,52,52,52] == .ok [54, 50, 54, 52]
-- the key check value of the all-zero double-length key: 8ca64d
#guard kcv (tdesFn (List.replicate 16 0)) 6 == [56, 99, 97, 54, 52, 100]

/-- non-vacuity / known answer: ct = 0FFFFFFFFFFF5F1A needs the second scan for two digits -/
example : decimalise [0, 15, 15, 15, 15, 15, 15, 15, 15, 15, 15, 15, 5, 15, 1, 10] = [48, 53, 49, 53] := by decide
example : decimalise [10, 11, 12, 13, 14, 15, 10, 10, 10, 10, 10, 10, 10, 10, 10, 10] = [48, 49, 50, 51] := by decide

end Cardutil.Props.C14
