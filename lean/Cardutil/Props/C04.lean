import Cardutil.Lemmas.Block
/-
  C04 — 1014 blocking: output is well-formed and data-exact for every write sequence.

  `Block.stream P ws` is the model of: a fresh `Block1014` on an empty file, one `write` per
  element of `ws` (any chunking, any lengths, empty writes included), then `finalise`.
  `Block.blockify P d` is the model of the one-shot `block_1014`.
  All statements are for every history `ws : List Bytes`, no bound on lengths or counts.
-/
namespace Cardutil.Props.C04

open Cardutil Cardutil.Block

/-- Generic form (any positive payload size): the finalised stream is the one-shot blocking of
    the concatenated data, optionally followed by exactly one fill-only block. -/
theorem stream_eq_blockify {P : Nat} (hP : 0 < P) (ws : List Bytes) :
    stream P ws = blockify P ws.flatten ∨
    stream P ws = blockify P ws.flatten ++ fillBlock P := by
  have hinv := inv_writes hP ws (inv_init P)
  have hfin := final_of_inv hP hinv
  simp only [List.nil_append] at hfin
  unfold stream
  by_cases h : (writes P P ws).2 = P
  · right; simpa [h] using hfin
  · left; simpa [h] using hfin

/-- The output as an explicit list of blocks: one per chunk of the data, then ≤ 1 fill block. -/
theorem stream_blocks {P : Nat} (hP : 0 < P) (ws : List Bytes) :
    ∃ extra : List Bytes, (extra = [] ∨ extra = [fillBlock P]) ∧
      stream P ws = ((chunks P ws.flatten).map (mkBlock P) ++ extra).flatten ∧
      Blocks P ((chunks P ws.flatten).map (mkBlock P) ++ extra) := by
  rcases stream_eq_blockify hP ws with h | h
  · refine ⟨[], Or.inl rfl, ?_, ?_⟩
    · simp [h, blockify_eq_chunks hP]
    · simpa using blocks_mk hP ws.flatten
  · refine ⟨[fillBlock P], Or.inr rfl, ?_, ?_⟩
    · simp [h, blockify_eq_chunks hP]
    · exact blocks_append (blocks_mk hP ws.flatten) (blocks_fill P)

theorem stream_length {P : Nat} (hP : 0 < P) (ws : List Bytes) : (stream P ws).length % (P + 2) = 0 := by
  obtain ⟨extra, _, he, hb⟩ := stream_blocks hP ws
  rw [he, length_flatten_blocks hb]; simp

theorem stream_wellBlocked {P : Nat} (hP : 0 < P) (ws : List Bytes) : wellBlocked P (stream P ws) = true := by
  obtain ⟨extra, _, he, hb⟩ := stream_blocks hP ws
  rw [he]; exact wellBlocked_blocks hb

theorem stream_payloads {P : Nat} (hP : 0 < P) (ws : List Bytes) :
    ∃ k, k < 2 * P ∧ payloads P (stream P ws) = ws.flatten ++ List.replicate k padByte := by
  obtain ⟨k, hk, _, hp⟩ := payloads_blockify hP ws.flatten
  rcases stream_eq_blockify hP ws with h | h
  · exact ⟨k, by omega, by rw [h, hp]⟩
  · refine ⟨k + P, by omega, ?_⟩
    have hb : Blocks P ((chunks P ws.flatten).map (mkBlock P) ++ [fillBlock P]) :=
      blocks_append (blocks_mk hP ws.flatten) (blocks_fill P)
    have : stream P ws = ((chunks P ws.flatten).map (mkBlock P) ++ [fillBlock P]).flatten := by
      simp [h, blockify_eq_chunks hP]
    rw [this, payloads_blocks hb]
    rw [blockify_eq_chunks hP, payloads_blocks (blocks_mk hP _)] at hp
    simp only [List.map_append, List.flatten_append, hp]
    simp [fillBlock, List.take_replicate, Nat.min_eq_left, List.append_assoc]

/-- the validating unblocker inverts both blockers up to fill -/
theorem unblock_stream {P : Nat} (hP : 0 < P) (ws : List Bytes) :
    ∃ k, k < 2 * P ∧ unblock P (stream P ws) = some (ws.flatten ++ List.replicate k padByte) := by
  obtain ⟨k, hk, hp⟩ := stream_payloads hP ws
  exact ⟨k, hk, by rw [unblock_iff, stream_wellBlocked hP ws, hp]; rfl⟩

/-! ## The property at the code's constant, `P = 1012` (block = 1014 bytes) -/

/-- C04(a): a whole number of 1014-byte blocks. -/
theorem C04_whole_blocks (ws : List Bytes) : (stream 1012 ws).length % 1014 = 0 :=
  stream_length (P := 1012) (by decide) ws

/-- C04(b): every block ends in two 0x40 bytes (and there is no short block). -/
theorem C04_trailers (ws : List Bytes) : wellBlocked 1012 (stream 1012 ws) = true :=
  stream_wellBlocked (P := 1012) (by decide) ws

/-- C04(c): payloads concatenated = the bytes written, in order, then only 0x40 fill;
    nothing dropped, duplicated or moved (content is universally quantified). -/
theorem C04_payloads (ws : List Bytes) :
    ∃ k, k < 2024 ∧ payloads 1012 (stream 1012 ws) = ws.flatten ++ List.replicate k padByte :=
  stream_payloads (P := 1012) (by decide) ws

/-- C04(d): streaming and one-shot blocker agree apart from one optional trailing all-fill
    block; hence at most one block holds fill only. -/
theorem C04_stream_vs_oneshot (ws : List Bytes) :
    stream 1012 ws = blockify 1012 ws.flatten ∨
    stream 1012 ws = blockify 1012 ws.flatten ++ fillBlock 1012 :=
  stream_eq_blockify (P := 1012) (by decide) ws

/-- C04(e): block structure made explicit. -/
theorem C04_blocks (ws : List Bytes) :
    ∃ extra : List Bytes, (extra = [] ∨ extra = [fillBlock 1012]) ∧
      stream 1012 ws = ((chunks 1012 ws.flatten).map (mkBlock 1012) ++ extra).flatten ∧
      Blocks 1012 ((chunks 1012 ws.flatten).map (mkBlock 1012) ++ extra) :=
  stream_blocks (P := 1012) (by decide) ws

/-- the one-shot blocker alone: well-formed, data-exact, fill < one block -/
theorem C04_oneshot (d : Bytes) :
    wellBlocked 1012 (blockify 1012 d) = true ∧
    ∃ k, k < 1012 ∧ payloads 1012 (blockify 1012 d) = d ++ List.replicate k padByte := by
  refine ⟨wellBlocked_blockify (P := 1012) (by decide) d, ?_⟩
  obtain ⟨k, hk, _, hp⟩ := payloads_blockify (P := 1012) (by decide) d
  exact ⟨k, hk, hp⟩

-- sanity test (evaluated, not a theorem): a three-write history with an empty write that ends
-- in the "trailer pending" situation; the theorems above have no hypotheses, so vacuity is not
-- a concern.
#guard stream 3 [[1, 2], [], [3, 4, 5, 6]] == [1, 2, 3, 64, 64, 4, 5, 6, 64, 64]
#guard stream 3 [[1, 2, 3]] == [1, 2, 3, 64, 64, 64, 64, 64, 64, 64]

end Cardutil.Props.C04
