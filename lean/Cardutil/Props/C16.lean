import Cardutil.Model.Card
import Cardutil.Model.Iso8583
/-
  C16 — masking never discloses more than the first six and last four digits.

  Part 1 (this file, top): the shape of `mask` for every card number of length ≥ 10 over arbitrary
  characters and every mask character.  Part 2 (bottom): decode non-interference under PAN / PAN-PREFIX configurations, over the
  ISO8583 decoder model.
-/
namespace Cardutil.Props.C16

open Cardutil Cardutil.Card

theorem C16_length (pan : Text) (m : Nat) (h : 10 ≤ pan.length) : (mask pan m).length = pan.length := by
  simp [mask, List.length_take, List.length_drop]; omega

theorem C16_first6 (pan : Text) (m : Nat) (h : 10 ≤ pan.length) : (mask pan m).take 6 = pan.take 6 := by
  unfold mask
  rw [List.append_assoc, List.take_append_of_le_length (by simp [List.length_take]; omega)]
  simp [List.take_take]

theorem C16_last4 (pan : Text) (m : Nat) (h : 10 ≤ pan.length) :
    (mask pan m).drop ((mask pan m).length - 4) = pan.drop (pan.length - 4) := by
  rw [C16_length pan m h]
  unfold mask
  have hl : (pan.take 6 ++ List.replicate (pan.length - 10) m).length = pan.length - 4 := by
    simp [List.length_take]; omega
  exact List.drop_left' hl

/-- every position strictly between the first six and the last four holds the mask character:
    no middle character of the input survives, whatever the input characters are -/
theorem C16_middle (pan : Text) (m : Nat) (h : 10 ≤ pan.length) (i : Nat) (h6 : 6 ≤ i)
    (h4 : i < pan.length - 4) : (mask pan m)[i]? = some m := by
  unfold mask
  have hl : (pan.take 6).length = 6 := by simp [List.length_take]; omega
  rw [List.append_assoc, List.getElem?_append_right (by omega), hl,
    List.getElem?_append_left (by simp; omega)]
  simp [List.getElem?_replicate]; omega

/-- the masked value is a function of the first six, the last four, the length and the mask
    character only: two numbers agreeing on those mask to the same value (non-disclosure) -/
theorem C16_noninterference (p q : Text) (m : Nat) (hp : 10 ≤ p.length) (hlen : p.length = q.length)
    (h6 : p.take 6 = q.take 6) (h4 : p.drop (p.length - 4) = q.drop (q.length - 4)) :
    mask p m = mask q m := by
  unfold mask; rw [h6, h4, hlen]

/-- PAN-PREFIX keeps the first nine characters only -/
theorem C16_prefix (pan : Text) : panPrefix pan = pan.take 9 ∧ (panPrefix pan).length ≤ 9 := by
  simp [panPrefix, List.length_take]; omega

/-! ### decoding under a masking configuration -/

open Cardutil.Iso in
/-- C16 (decode, PAN): for an element configured with the PAN processor, everything the decoder
    returns for it is computed from the MASKED text: two contents that agree on length, first six
    and last four characters decode to the same entries — no middle character can influence, hence
    appear in, the returned dictionary -/
theorem C16_decode_pan (env : Env) (bit : Nat) (f : FieldCfg) (raw raw' : Bytes) (t t' : Text)
    (hproc : f.proc = .pan)
    (hd : env.codec.decode raw = some t) (hd' : env.codec.decode raw' = some t')
    (h10 : 10 ≤ t.length) (hlen : t.length = t'.length)
    (h6 : t.take 6 = t'.take 6) (h4 : t.drop (t.length - 4) = t'.drop (t'.length - 4)) :
    decodeTextField env bit f raw = decodeTextField env bit f raw' := by
  unfold decodeTextField
  rw [hd, hd']
  have : transform f t = transform f t' := by
    simp only [transform, hproc]
    exact C16_noninterference t t' 42 h10 hlen h6 h4
  simp only [this]

open Cardutil.Iso in
/-- C16 (decode, PAN-PREFIX): only the first nine characters can influence the result -/
theorem C16_decode_pan_prefix (env : Env) (bit : Nat) (f : FieldCfg) (raw raw' : Bytes) (t t' : Text)
    (hproc : f.proc = .panPrefix)
    (hd : env.codec.decode raw = some t) (hd' : env.codec.decode raw' = some t')
    (h9 : t.take 9 = t'.take 9) :
    decodeTextField env bit f raw = decodeTextField env bit f raw' := by
  unfold decodeTextField
  rw [hd, hd']
  have : transform f t = transform f t' := by
    simp only [transform, hproc, panPrefix, h9]
  simp only [this]

open Cardutil.Iso in
/-- the value stored for the element itself is the masked form / the prefix (string-typed element) -/
theorem C16_decode_value (env : Env) (bit : Nat) (f : FieldCfg) (raw : Bytes) (t : Text)
    (hty : f.pytype = .str) (hd : env.codec.decode raw = some t) (hproc : f.proc = .pan ∨ f.proc = .panPrefix) :
    ∃ sub, decodeTextField env bit f raw = .ok (Dict.update [(Key.de bit, Val.str (transform f t))] sub) ∧
      transform f t = (if f.proc = .pan then mask t 42 else panPrefix t) := by
  unfold decodeTextField
  rw [hd]
  simp only [stringToPyType, hty, Outcome.catchAs, Outcome.bind]
  rcases hproc with hp | hp
  · refine ⟨[], by simp [derived, hp], by simp [transform, hp]⟩
  · refine ⟨[], by simp [derived, hp], by simp [transform, hp]⟩

/-- non-vacuity: a 19-digit number -/
example : mask [52,52,52,52,53,53,53,53,54,54,54,54,55,55,55,55,56,56,56] 42 =
    [52,52,52,52,53,53,42,42,42,42,42,42,42,42,42,55,56,56,56] := by decide

end Cardutil.Props.C16
