import Cardutil.Model.Card
/-
  C16 — masking never discloses more than the first six and last four digits.

  Part 1 (this file, top): the shape of `mask` for every card number of length ≥ 10 over arbitrary
  characters and every mask character.  Part 2 (decode non-interference under PAN / PAN-PREFIX
  configurations) is stated over the ISO8583 decoder model in `Props/C16b.lean`.
-/
namespace Cardutil.Props.C16

open Cardutil Cardutil.Card

theorem C16_length (pan : Text) (m : Nat) (h : 10 ≤ pan.length) : (mask pan m).length = pan.length := by
  simp [mask, List.length_take, List.length_drop]; omega

theorem C16_first6 (pan : Text) (m : Nat) (h : 10 ≤ pan.length) : (mask pan m).take 6 = pan.take 6 := by
  unfold mask
  rw [List.append_assoc, List.take_append_of_le_length (by simp [List.length_take]; omega)]
  simp [List.take_take]

theorem C16_last4 (pan : Text) (m : Nat) (h : 10 ≤ pan.length) :
    (mask pan m).drop ((mask pan m).length - 4) = pan.drop (pan.length - 4) := by
  rw [C16_length pan m h]
  unfold mask
  have hl : (pan.take 6 ++ List.replicate (pan.length - 10) m).length = pan.length - 4 := by
    simp [List.length_take]; omega
  exact List.drop_left' hl

/-- every position strictly between the first six and the last four holds the mask character:
    no middle character of the input survives, whatever the input characters are -/
theorem C16_middle (pan : Text) (m : Nat) (h : 10 ≤ pan.length) (i : Nat) (h6 : 6 ≤ i)
    (h4 : i < pan.length - 4) : (mask pan m)[i]? = some m := by
  unfold mask
  have hl : (pan.take 6).length = 6 := by simp [List.length_take]; omega
  rw [List.append_assoc, List.getElem?_append_right (by omega), hl,
    List.getElem?_append_left (by simp; omega)]
  simp [List.getElem?_replicate]; omega

/-- the masked value is a function of the first six, the last four, the length and the mask
    character only: two numbers agreeing on those mask to the same value (non-disclosure) -/
theorem C16_noninterference (p q : Text) (m : Nat) (hp : 10 ≤ p.length) (hlen : p.length = q.length)
    (h6 : p.take 6 = q.take 6) (h4 : p.drop (p.length - 4) = q.drop (q.length - 4)) :
    mask p m = mask q m := by
  unfold mask; rw [h6, h4, hlen]

/-- PAN-PREFIX keeps the first nine characters only -/
theorem C16_prefix (pan : Text) : panPrefix pan = pan.take 9 ∧ (panPrefix pan).length ≤ 9 := by
  simp [panPrefix, List.length_take]; omega

/-- non-vacuity: a 19-digit number -/
example : mask [52,52,52,52,53,53,53,53,54,54,54,54,55,55,55,55,56,56,56] 42 =
    [52,52,52,52,53,53,42,42,42,42,42,42,42,42,42,55,56,56,56] := by decide

end Cardutil.Props.C16
