import Cardutil.Lemmas.IsoMsg
import Cardutil.Lemmas.IsoSafe
import Cardutil.Props.C01
/-
  C08 — decoding accepts exactly the well-framed messages and never mis-frames one.

  `frames env cfg bits data` is an independent, pointer-free reading of the element layout: for
  each flagged element in ascending order its length prefix, its declared (non-negative) length and
  its content bytes.  Soundness: whenever `decode` returns, the elements flagged in the bitmap TILE
  the message data exactly under that reading and every returned value is the decoding of the
  element's own content bytes.  Completeness: every message that tiles and whose contents decode
  and convert is accepted.  All byte strings, codecs, configurations; no bound.
-/
namespace Cardutil.Props.C08

open Cardutil Cardutil.Iso Cardutil.Py

/-- one element as it sits in the message data -/
structure Seg where
  bit : Nat
  f : FieldCfg
  pre : Bytes        -- the length prefix bytes (empty for fixed elements)
  declared : Nat     -- configured width or the parsed, non-negative, length prefix
  content : Bytes

/-- decoding of an element's content bytes (the part of `_iso8583_to_field` after the length) -/
def decodeContent (env : Env) (bit : Nat) (f : FieldCfg) (raw : Bytes) : Outcome Dict :=
  if f.proc == .icc then decodeIcc bit f raw else decodeTextField env bit f raw

theorem decodeField_eq (env : Env) (bit : Nat) (f : FieldCfg) (data : Bytes) :
    decodeField env bit f data =
      (fieldLength env f data).bind (fun n =>
        (decodeContent env bit f ((data.drop f.prefixLen).take n)).bind (fun d => .ok (d, n + f.prefixLen))) := rfl

/-- the independent reading of the layout: prefix, declared length, content, element by element -/
def frames (env : Env) (cfg : Config) : List Nat → Bytes → Option (List Seg)
  | [], _ => some []
  | bit :: bits, data =>
    match cfg.get bit with
    | none => none
    | some f =>
      match fieldLength env f data with
      | .ok n =>
        (frames env cfg bits (data.drop (f.prefixLen + n))).map
          (⟨bit, f, data.take f.prefixLen, n, (data.drop f.prefixLen).take n⟩ :: ·)
      | _ => none

def totalLen (segs : List Seg) : Nat := (segs.map (fun s => s.f.prefixLen + s.declared)).sum

/-- the dictionary the elements yield, in order -/
def dictOf (env : Env) (acc : Dict) : List Seg → Outcome Dict
  | [] => .ok acc
  | s :: rest => (decodeContent env s.bit s.f s.content).bind (fun d => dictOf env (Dict.update acc d) rest)

/-- the decoder's pointer loop computes exactly `frames` + `dictOf`, and its final pointer is the
    start pointer plus the total of prefix + declared lengths -/
theorem decodeBits_frames (env : Env) (cfg : Config) (bits : List Nat) (data : Bytes) (acc : Dict) (ptr : Nat)
    (d : Dict) (q : Nat) (h : decodeBits env cfg bits data acc ptr = .ok (d, q)) :
    ∃ segs, frames env cfg bits (data.drop ptr) = some segs ∧ q = ptr + totalLen segs ∧
      dictOf env acc segs = .ok d := by
  induction bits generalizing acc ptr with
  | nil =>
    simp only [decodeBits] at h
    injection h with e; injection e with e1 e2
    exact ⟨[], rfl, by simp [totalLen, e2], by rw [← e1]; rfl⟩
  | cons bit bits ih =>
    simp only [decodeBits] at h
    cases hcfg : cfg.get bit with
    | none => rw [hcfg] at h; simp at h
    | some f =>
      simp only [hcfg, decodeField_eq] at h
      cases hlen : fieldLength env f (data.drop ptr) with
      | ok n =>
        rw [hlen] at h
        simp only [Outcome.bind] at h
        cases hc : decodeContent env bit f (((data.drop ptr).drop f.prefixLen).take n) with
        | ok dc =>
          rw [hc] at h
          simp only at h
          obtain ⟨segs, hfr, hq, hd⟩ := ih _ _ h
          refine ⟨⟨bit, f, (data.drop ptr).take f.prefixLen, n, ((data.drop ptr).drop f.prefixLen).take n⟩ :: segs,
            ?_, ?_, ?_⟩
          · simp only [frames, hcfg, hlen]
            have : (data.drop ptr).drop (f.prefixLen + n) = data.drop (ptr + (n + f.prefixLen)) := by
              rw [List.drop_drop]; congr 1; omega
            rw [this, hfr]; rfl
          · simp only [totalLen, List.map_cons, List.sum_cons] at hq ⊢; omega
          · simp only [dictOf, hc, Outcome.bind, hd]
        | dataError => rw [hc] at h; simp at h
        | escape k => rw [hc] at h; simp at h
        | diverge => rw [hc] at h; simp at h
      | dataError => rw [hlen] at h; simp [Outcome.bind] at h
      | escape k => rw [hlen] at h; simp [Outcome.bind] at h
      | diverge => rw [hlen] at h; simp [Outcome.bind] at h

/-- exact tiling: if the elements' total length is the data's length, the data IS the elements'
    prefix and content bytes laid end to end — nothing left over, overlapping or skipped — and
    every content has exactly its declared length -/
theorem frames_tile (env : Env) (cfg : Config) (bits : List Nat) (data : Bytes) (segs : List Seg)
    (h : frames env cfg bits data = some segs) (hlen : totalLen segs = data.length) :
    data = (segs.map (fun s => s.pre ++ s.content)).flatten ∧
    (∀ s ∈ segs, s.pre.length = s.f.prefixLen ∧ s.content.length = s.declared) ∧
    segs.map (·.bit) = bits := by
  induction bits generalizing data segs with
  | nil =>
    simp only [frames] at h
    injection h with e; subst e
    simp only [totalLen, List.map_nil, List.sum_nil] at hlen
    have : data = [] := by simpa using hlen.symm
    subst this
    exact ⟨rfl, by simp, rfl⟩
  | cons bit bits ih =>
    simp only [frames] at h
    cases hcfg : cfg.get bit with
    | none => rw [hcfg] at h; simp at h
    | some f =>
      rw [hcfg] at h
      simp only at h
      cases hl : fieldLength env f data with
      | ok n =>
        rw [hl] at h
        simp only at h
        cases hr : frames env cfg bits (data.drop (f.prefixLen + n)) with
        | none => rw [hr] at h; simp at h
        | some rest =>
          rw [hr] at h
          simp only [Option.map_some, Option.some.injEq] at h
          subst h
          simp only [totalLen, List.map_cons, List.sum_cons] at hlen
          have hbound : f.prefixLen + n ≤ data.length := by omega
          have hrest : totalLen rest = (data.drop (f.prefixLen + n)).length := by
            simp only [totalLen, List.length_drop]; omega
          obtain ⟨hd, hs, hb⟩ := ih _ _ hr hrest
          refine ⟨?_, ?_, by simp [hb]⟩
          · simp only [List.map_cons, List.flatten_cons]
            rw [← hd]
            have h1 : data = data.take f.prefixLen ++ data.drop f.prefixLen := (List.take_append_drop _ _).symm
            have h2 : data.drop f.prefixLen = (data.drop f.prefixLen).take n ++ (data.drop f.prefixLen).drop n :=
              (List.take_append_drop _ _).symm
            rw [List.drop_drop] at h2
            have h3 : f.prefixLen + n = f.prefixLen + n := rfl
            conv => lhs; rw [h1, h2]
            simp [List.append_assoc]
          · intro s hs'
            rcases List.mem_cons.mp hs' with rfl | hs''
            · simp only [List.length_take, List.length_drop]
              omega
            · exact hs s hs''
      | dataError => rw [hl] at h; simp at h
      | escape k => rw [hl] at h; simp at h
      | diverge => rw [hl] at h; simp at h

/-- the declared length of every element is what its prefix says (parsed with `int()`, never
    negative) or the configured width -/
theorem frames_declared (env : Env) (cfg : Config) (bits : List Nat) (data : Bytes) (segs : List Seg)
    (h : frames env cfg bits data = some segs) :
    ∀ s ∈ segs, cfg.get s.bit = some s.f ∧
      (s.f.prefixLen = 0 → s.declared = s.f.length) ∧
      (0 < s.f.prefixLen → ∃ t, env.codec.decode s.pre = some t ∧ pyInt env.classes t = some (Int.ofNat s.declared)) := by
  induction bits generalizing data segs with
  | nil => simp only [frames] at h; injection h with e; subst e; simp
  | cons bit bits ih =>
    simp only [frames] at h
    cases hcfg : cfg.get bit with
    | none => rw [hcfg] at h; simp at h
    | some f =>
      rw [hcfg] at h
      simp only at h
      cases hl : fieldLength env f data with
      | ok n =>
        rw [hl] at h
        simp only at h
        cases hr : frames env cfg bits (data.drop (f.prefixLen + n)) with
        | none => rw [hr] at h; simp at h
        | some rest =>
          rw [hr] at h
          simp only [Option.map_some, Option.some.injEq] at h
          subst h
          intro s hs
          rcases List.mem_cons.mp hs with rfl | hs'
          · refine ⟨hcfg, ?_, ?_⟩
            · intro h0
              have h0' : f.prefixLen = 0 := h0
              unfold fieldLength at hl
              rw [if_pos h0'] at hl
              injection hl with e; exact e.symm
            · intro hpos
              have hpos' : 0 < f.prefixLen := hpos
              unfold fieldLength at hl
              rw [if_neg (by omega)] at hl
              cases hd : env.codec.decode (data.take f.prefixLen) with
              | none => rw [hd] at hl; simp at hl
              | some t =>
                rw [hd] at hl
                simp only at hl
                cases hi : pyInt env.classes t with
                | none => rw [hi] at hl; simp at hl
                | some i =>
                  rw [hi] at hl
                  cases i with
                  | ofNat k =>
                    simp only at hl
                    injection hl with e
                    subst e
                    exact ⟨t, rfl, hi⟩
                  | negSucc k => simp at hl
          · exact ih _ _ hr s hs'
      | dataError => rw [hl] at h; simp at h
      | escape k => rw [hl] at h; simp at h
      | diverge => rw [hl] at h; simp at h

/-- C08 (soundness): whenever decoding returns, the header is well formed and the elements flagged
    in the bitmap tile the message data exactly; the returned dictionary is MTI plus, element by
    element, the decoding of that element's own content bytes -/
theorem C08_sound (env : Env) (cfg : Config) (hexBitmap : Bool) (msg : Bytes) (d : Dict)
    (h : decode env cfg hexBitmap msg = .ok d) :
    ∃ mti bitmap data segs,
      decodeHeader env hexBitmap msg = .ok (mti, bitmap, data) ∧
      frames env cfg (presentBits bitmap) data = some segs ∧
      data = (segs.map (fun s => s.pre ++ s.content)).flatten ∧
      (∀ s ∈ segs, s.pre.length = s.f.prefixLen ∧ s.content.length = s.declared) ∧
      segs.map (·.bit) = presentBits bitmap ∧
      dictOf env [(.mti, .str mti)] segs = .ok d := by
  unfold decode at h
  cases hh : decodeHeader env hexBitmap msg with
  | ok hdr =>
    obtain ⟨mti, bitmap, data⟩ := hdr
    rw [hh] at h
    simp only [Outcome.bind, decodeBody] at h
    cases hb : decodeBits env cfg (presentBits bitmap) data [(.mti, .str mti)] 0 with
    | ok r =>
      rw [hb] at h
      simp only at h
      split at h
      · rename_i hptr
        injection h with e
        obtain ⟨segs, hfr, hq, hd⟩ := decodeBits_frames env cfg _ _ _ _ r.1 r.2 (by rw [hb])
        simp only [List.drop_zero, Nat.zero_add] at hfr hq
        obtain ⟨ht, hs, hbits⟩ := frames_tile env cfg _ _ _ hfr (by rw [← hq]; exact hptr)
        exact ⟨mti, bitmap, data, segs, rfl, hfr, ht, hs, hbits, by rw [← e]; exact hd⟩
      · simp at h
    | dataError => rw [hb] at h; simp at h
    | escape k => rw [hb] at h; simp at h
    | diverge => rw [hb] at h; simp at h
  | dataError => rw [hh] at h; simp [Outcome.bind] at h
  | escape k => rw [hh] at h; simp [Outcome.bind] at h
  | diverge => rw [hh] at h; simp [Outcome.bind] at h

/-- the pointer loop accepts whatever tiles and decodes -/
theorem decodeBits_of_frames (env : Env) (cfg : Config) (bits : List Nat) (data : Bytes) (acc : Dict) (ptr : Nat)
    (segs : List Seg) (d : Dict)
    (hfr : frames env cfg bits (data.drop ptr) = some segs) (hd : dictOf env acc segs = .ok d) :
    decodeBits env cfg bits data acc ptr = .ok (d, ptr + totalLen segs) := by
  induction bits generalizing acc ptr segs with
  | nil =>
    simp only [frames] at hfr
    injection hfr with e; subst e
    simp only [dictOf] at hd
    injection hd with e; subst e
    simp [decodeBits, totalLen]
  | cons bit bits ih =>
    simp only [frames] at hfr
    cases hcfg : cfg.get bit with
    | none => rw [hcfg] at hfr; simp at hfr
    | some f =>
      rw [hcfg] at hfr
      simp only at hfr
      cases hl : fieldLength env f (data.drop ptr) with
      | ok n =>
        rw [hl] at hfr
        simp only at hfr
        cases hr : frames env cfg bits ((data.drop ptr).drop (f.prefixLen + n)) with
        | none => rw [hr] at hfr; simp at hfr
        | some rest =>
          rw [hr] at hfr
          simp only [Option.map_some, Option.some.injEq] at hfr
          subst hfr
          simp only [dictOf] at hd
          cases hc : decodeContent env bit f (((data.drop ptr).drop f.prefixLen).take n) with
          | ok dc =>
            rw [hc] at hd
            simp only [Outcome.bind] at hd
            have hdrop : (data.drop ptr).drop (f.prefixLen + n) = data.drop (ptr + (n + f.prefixLen)) := by
              rw [List.drop_drop]; congr 1; omega
            rw [hdrop] at hr
            have := ih _ _ _ hr hd
            simp only [decodeBits, hcfg, decodeField_eq, hl, Outcome.bind, hc, this]
            simp only [totalLen, List.map_cons, List.sum_cons]
            congr 2; omega
          | dataError => rw [hc] at hd; simp [Outcome.bind] at hd
          | escape k => rw [hc] at hd; simp [Outcome.bind] at hd
          | diverge => rw [hc] at hd; simp [Outcome.bind] at hd
      | dataError => rw [hl] at hfr; simp at hfr
      | escape k => rw [hl] at hfr; simp at hfr
      | diverge => rw [hl] at hfr; simp at hfr

/-- C08 (completeness): a message with a well-formed header whose flagged elements tile the data
    exactly and whose contents decode and convert is ACCEPTED, with exactly that dictionary — a
    decoder made too strict (e.g. rejecting zero-length variable elements) would violate this -/
theorem C08_complete (env : Env) (cfg : Config) (hexBitmap : Bool) (msg : Bytes)
    (mti : Text) (bitmap data : Bytes) (segs : List Seg) (d : Dict)
    (hh : decodeHeader env hexBitmap msg = .ok (mti, bitmap, data))
    (hfr : frames env cfg (presentBits bitmap) data = some segs)
    (htile : totalLen segs = data.length)
    (hd : dictOf env [(.mti, .str mti)] segs = .ok d) :
    decode env cfg hexBitmap msg = .ok d := by
  unfold decode
  rw [hh]
  simp only [Outcome.bind, decodeBody]
  rw [decodeBits_of_frames env cfg _ data _ 0 segs d (by simpa using hfr) hd]
  simp [htile]

/-- zero-length variable elements are well framed: a prefix of zeros declares length 0 -/
example : fieldLength (C01.envOf Gen.latin_1 (fun _ => none)) ⟨.llvar, 0, .none, .str, []⟩ [48, 48, 65] = .ok 0 := by
  decide +kernel

/-- and a negative prefix is not a length at all -/
example : fieldLength (C01.envOf Gen.latin_1 (fun _ => none)) ⟨.llvar, 0, .none, .str, []⟩ [45, 50, 65] = .dataError := by
  decide +kernel

end Cardutil.Props.C08
