import Cardutil.Lemmas.Vbs
/-
  C10 — a bad record is reported with its own record number and raw bytes.

  `Vbs.ipmReadAll S maxLen dec fuel (Vbs.init file)` models `list(IpmReader(file))` for ANY message
  decoder `dec` (the ISO8583 decoder of the model is one instance): the statements hold whatever
  makes record k undecodable — bad MTI, unknown bit, bad field length, bad typed value, bad PDS/ICC
  content.  Files are unbounded: any number of good records before the bad one.
-/
namespace Cardutil.Props.C10

open Cardutil Cardutil.Vbs

/-- C10(a), message-level fault, unblocked: records 1..k-1 are delivered, then the library error
    with record number k and context = the raw bytes of record k including its length prefix -/
theorem C10_message_fault {α} (dec : Bytes → Outcome α) (val : Bytes → α) (maxLen : Nat) (hmax : maxLen < 4294967296)
    (good : List Bytes) (bad : Bytes) (rest : Bytes)
    (hgood : ∀ r ∈ good, 0 < r.length ∧ r.length ≤ maxLen ∧ dec r = .ok (val r))
    (hb0 : 0 < bad.length) (hbl : bad.length ≤ maxLen) (hbad : dec bad = .dataError) (fuel : Nat)
    (hf : good.length < fuel) :
    ipmReadAll plainSrc maxLen dec fuel (init (vbsBytes good ++ (be32 bad.length ++ (bad ++ rest)))) =
      (good.map val, .dataError (good.length + 1) (be32 bad.length ++ bad)) := by
  have := ipmReadAll_bad (ml := maxLen) (by unfold lim32; exact hmax) dec val good bad rest hgood hb0 hbl hbad fuel 1
    none hf
  rw [Nat.add_comm] at this
  exact this

/-- C10(b), framing-level fault (declared length above the maximum): number k, the length bytes -/
theorem C10_oversized {α} (dec : Bytes → Outcome α) (val : Bytes → α) (maxLen : Nat) (hmax : maxLen < 4294967296)
    (good : List Bytes) (n : Nat) (rest : Bytes)
    (hgood : ∀ r ∈ good, 0 < r.length ∧ r.length ≤ maxLen ∧ dec r = .ok (val r))
    (hn : maxLen < n) (hn32 : n < 4294967296) (fuel : Nat) (hf : good.length < fuel) :
    ipmReadAll plainSrc maxLen dec fuel (init (vbsBytes good ++ (be32 n ++ rest))) =
      (good.map val, .dataError (good.length + 1) (be32 n)) := by
  have := ipmReadAll_oversized (ml := maxLen) (by unfold lim32; exact hmax) dec val good n rest hgood hn
    (by unfold lim32; exact hn32) fuel 1 none hf
  rw [Nat.add_comm] at this
  exact this

/-- C10(c), framing-level fault (record cut short): number k, the length bytes and the bytes that
    could be read -/
theorem C10_truncated {α} (dec : Bytes → Outcome α) (val : Bytes → α) (maxLen : Nat) (hmax : maxLen < 4294967296)
    (good : List Bytes) (bad : Bytes) (n : Nat)
    (hgood : ∀ r ∈ good, 0 < r.length ∧ r.length ≤ maxLen ∧ dec r = .ok (val r))
    (hbl : bad.length ≤ maxLen) (hn : n < bad.length) (fuel : Nat) (hf : good.length < fuel) :
    ipmReadAll plainSrc maxLen dec fuel (init (vbsBytes good ++ (be32 bad.length ++ bad.take n))) =
      (good.map val, .dataError (good.length + 1) (be32 bad.length ++ bad.take n)) := by
  have := ipmReadAll_truncated (ml := maxLen) (by unfold lim32; exact hmax) dec val good bad n hgood hbl hn fuel 1
    none hf
  rw [Nat.add_comm] at this
  exact this

/-- C10(d): the same through the 1014 unblocker — a blocked file behaves exactly like its payload
    stream, record numbers and context bytes included -/
theorem C10_blocked {α} (dec : Bytes → Outcome α) (maxLen fuel : Nat) (file : Bytes) :
    ipmReadAll (unblockSrc 1012) maxLen dec fuel (init ⟨file, []⟩) =
      ipmReadAll plainSrc maxLen dec fuel (init (Block.payloads 1012 file)) := by
  have := ipmReadAll_unblock 1012 maxLen dec fuel ⟨file, []⟩ 1 none
  simpa [init, Unblock.remaining] using this

/-- the operator report is a function of the error's record number: `print_exception_details`
    prints "Error detected in record k" for the k carried by the error (modelled as the identity on
    the number; the text is exercised by the harness) -/
def reportedRecord : End → Option Nat
  | .dataError k _ => some k
  | _ => none

theorem C10_report {α} (dec : Bytes → Outcome α) (val : Bytes → α) (maxLen : Nat) (hmax : maxLen < 4294967296)
    (good : List Bytes) (bad : Bytes) (rest : Bytes)
    (hgood : ∀ r ∈ good, 0 < r.length ∧ r.length ≤ maxLen ∧ dec r = .ok (val r))
    (hb0 : 0 < bad.length) (hbl : bad.length ≤ maxLen) (hbad : dec bad = .dataError) :
    reportedRecord (ipmReadAll plainSrc maxLen dec (good.length + 1)
      (init (vbsBytes good ++ (be32 bad.length ++ (bad ++ rest))))).2 = some (good.length + 1) := by
  rw [C10_message_fault dec val maxLen hmax good bad rest hgood hb0 hbl hbad _ (by omega)]
  rfl

/-- non-vacuity: a decoder that accepts records starting with 1 and rejects the others -/
example :
    ipmReadAll plainSrc 6000 (fun r => if r.head? = some 1 then .ok r.length else .dataError) 10
      (init (vbsBytes [[1, 9], [1]] ++ (be32 2 ++ ([7, 7] ++ [0, 0, 0, 0])))) =
      ([2, 1], .dataError 3 [0, 0, 0, 2, 7, 7]) := by decide

end Cardutil.Props.C10
