import Cardutil.Props.C01
/-
  C02 — ISO8583 wire format conforms to the documented layout, in both directions.

  The layout is stated absolutely (not relative to the decoder): MTI bytes, then the 128 flags
  `flagsOf pres` (bit 1 always set, bit n set iff element n is emitted) as 16 bytes — or their 32
  lowercase hex characters — then the emitted elements in ascending order, each `Rendered`.
  A symmetric error of encoder and decoder (bit order, prefix width, padding side) would violate
  these statements even though the round trip (C01) would still hold.
-/
namespace Cardutil.Props.C02

open Cardutil Cardutil.Iso Cardutil.Py Cardutil.Digits

/-- the documented rendering of one element -/
inductive Rendered (env : Env) (f : FieldCfg) : Val → Bytes → Prop
  /-- fixed text: left-justified, space-padded (or cut) to exactly the field width, in the codec -/
  | fixedText (t : Text) (bs : Bytes) (hty : f.pytype = .str) (hls : f.prefixLen = 0)
      (henc : env.codec.encode (t.take f.length ++ List.replicate (f.length - (t.take f.length).length) 32) = some bs) :
      Rendered env f (.str t) bs
  /-- variable text: two- or three-digit decimal count, then exactly that many bytes -/
  | varText (t : Text) (p body : Bytes) (hty : f.pytype = .str) (hls : 0 < f.prefixLen)
      (hcount : t.length < 10 ^ f.prefixLen)
      (hp : env.codec.encode (digitText (toDigits 10 f.prefixLen t.length)) = some p)
      (hbody : env.codec.encode t = some body) :
      Rendered env f (.str t) (p ++ body)
  /-- fixed number: zero-padded decimal of exactly the field width -/
  | fixedInt (n : Nat) (bs : Bytes) (hty : f.pytype = .int) (hls : f.prefixLen = 0) (hw : 0 < f.length)
      (hn : n < 10 ^ f.length)
      (henc : env.codec.encode (digitText (toDigits 10 f.length n)) = some bs) :
      Rendered env f (.int (Int.ofNat n)) bs
  /-- variable binary (ICC): count, then the bytes untouched -/
  | varBytes (b p : Bytes) (hty : f.pytype = .str) (hls : 0 < f.prefixLen) (hcount : b.length < 10 ^ f.prefixLen)
      (hp : env.codec.encode (digitText (toDigits 10 f.prefixLen b.length)) = some p) :
      Rendered env f (.bytes b) (p ++ b)

theorem fmtInt_digits (w n : Nat) (hw : 0 < w) (hn : n < 10 ^ w) :
    fmtInt w (Int.ofNat n) = digitText (toDigits 10 w n) := by
  simp [fmtInt, fmtNat, hw, hn, digitText]

/-- C02(a), per element: whenever an element is encoded, its bytes are the documented rendering -/
theorem C02_element_layout (env : Env) (f : FieldCfg) (v : Val) (bs : Bytes) (h : encodeField env f v = .ok bs)
    (hty : f.pytype = .str ∨ (f.pytype = .int ∧ f.prefixLen = 0 ∧ 0 < f.length ∧ ∃ n, v = .int (Int.ofNat n) ∧ n < 10 ^ f.length))
    (hv : (∃ t, v = .str t) ∨ (∃ b, v = .bytes b ∧ 0 < f.prefixLen) ∨ ∃ n, v = .int (Int.ofNat n)) :
    Rendered env f v bs := by
  rcases hty with hty | ⟨hty, hls, hw, n, rfl, hn⟩
  · rcases hv with ⟨t, rfl⟩ | ⟨b, rfl, hls⟩ | ⟨n, rfl⟩
    · simp only [encodeField, pyTypeToString, hty, Outcome.bind] at h
      split at h
      · rename_i hls
        apply Rendered.fixedText t bs hty hls
        unfold encodeText fitLeft at h
        split at h
        · rename_i x hx; injection h with e; subst e; exact hx
        · simp at h
      · rename_i hls
        split at h
        · simp at h
        · rename_i hcount
          have hpos : 0 < f.prefixLen := Nat.pos_of_ne_zero hls
          have hlt : t.length < 10 ^ f.prefixLen := by omega
          rw [fmtInt_digits _ _ hpos hlt] at h
          unfold encodeText at h
          cases hp : env.codec.encode (digitText (toDigits 10 f.prefixLen t.length)) with
          | none => simp [hp, Outcome.bind] at h
          | some p =>
            cases hb : env.codec.encode t with
            | none => simp [hp, hb, Outcome.bind] at h
            | some body =>
              simp [hp, hb, Outcome.bind] at h
              subst h
              exact Rendered.varText t p body hty hpos hlt hp hb
    · simp only [encodeField, pyTypeToString, hty, Outcome.bind] at h
      rw [if_neg (by omega)] at h
      split at h
      · simp at h
      · rename_i hcount
        have hlt : b.length < 10 ^ f.prefixLen := by omega
        rw [fmtInt_digits _ _ hls hlt] at h
        unfold encodeText at h
        cases hp : env.codec.encode (digitText (toDigits 10 f.prefixLen b.length)) with
        | none => simp [hp, Outcome.bind] at h
        | some p =>
          simp [hp, Outcome.bind] at h
          subst h
          exact Rendered.varBytes b p hty hls hlt hp
    · simp [encodeField, pyTypeToString, hty, Outcome.bind] at h
  · simp only [encodeField, pyTypeToString, hty, Outcome.bind, hls, if_true] at h
    rw [fmtInt_digits _ _ hw hn] at h
    have hfit : fitLeft f.length (digitText (toDigits 10 f.length n)) = digitText (toDigits 10 f.length n) := by
      unfold fitLeft
      have : (digitText (toDigits 10 f.length n)).length = f.length := by simp [digitText]
      rw [List.take_of_length_le (by omega), this]; simp
    rw [hfit] at h
    unfold encodeText at h
    split at h
    · rename_i x hx; injection h with e; subst e
      exact Rendered.fixedInt n _ hty hls hw hn hx
    · simp at h

/-- C02(b): a variable-length value longer than its prefix can count is REFUSED with the library
    error, never emitted with a malformed prefix — text and binary, LLVAR (≥ 100) and LLLVAR (≥ 1000) -/
theorem C02_refuses_overlong_text (env : Env) (f : FieldCfg) (t : Text) (hty : f.pytype = .str) (hls : 0 < f.prefixLen)
    (h : 10 ^ f.prefixLen ≤ t.length) : encodeField env f (.str t) = .dataError := by
  simp only [encodeField, pyTypeToString, hty, Outcome.bind]
  rw [if_neg (by omega), if_pos h]

theorem C02_refuses_overlong_bytes (env : Env) (f : FieldCfg) (b : Bytes) (hty : f.pytype = .str) (hls : 0 < f.prefixLen)
    (h : 10 ^ f.prefixLen ≤ b.length) : encodeField env f (.bytes b) = .dataError := by
  simp only [encodeField, pyTypeToString, hty, Outcome.bind]
  rw [if_neg (by omega), if_pos h]

/-- … and conversely nothing representable is refused: the prefix widths are exactly 2 and 3 -/
theorem C02_prefix_widths (f : FieldCfg) :
    (f.ftype = .llvar → f.prefixLen = 2) ∧ (f.ftype = .lllvar → f.prefixLen = 3) ∧ (f.ftype = .fixed → f.prefixLen = 0) := by
  refine ⟨?_, ?_, ?_⟩ <;> intro h <;> simp [FieldCfg.prefixLen, h]

/-- the elements are emitted in ascending order of the bit list, each followed by the next:
    `encodeBits` output is the concatenation of the individual element encodings of exactly the
    present elements -/
theorem C02_elements_in_order (env : Env) (cfg : Config) (m : Dict) (bits pres : List Nat) (data : Bytes)
    (h : encodeBits env cfg m bits = .ok (pres, data)) :
    pres.Sublist bits ∧
    (∀ b ∈ pres, ∃ v, Dict.get m (.de b) = some v ∧ present v = true) ∧
    (∀ b ∈ bits, ∀ v, Dict.get m (.de b) = some v → present v = true → b ∈ pres) ∧
    ∃ parts : List Bytes, data = parts.flatten ∧ parts.length = pres.length ∧
      ∀ i (hi : i < pres.length) (hi' : i < parts.length), ∃ f v, cfg.get pres[i] = some f ∧
        Dict.get m (.de pres[i]) = some v ∧ encodeField env f v = .ok parts[i] := by
  induction bits generalizing pres data with
  | nil =>
    simp only [encodeBits] at h
    injection h with e
    injection e with e1 e2
    subst e1; subst e2
    exact ⟨List.Sublist.refl _, by simp, by simp, [], rfl, rfl, by intro i hi; simp at hi⟩
  | cons bit bits ih =>
    simp only [encodeBits] at h
    cases hget : Dict.get m (.de bit) with
    | none =>
      rw [hget] at h
      obtain ⟨h1, h2, h3, h4⟩ := ih pres data h
      refine ⟨h1.cons _, h2, ?_, h4⟩
      intro b hb v hv hp
      rcases List.mem_cons.mp hb with rfl | hb'
      · rw [hget] at hv; simp at hv
      · exact h3 b hb' v hv hp
    | some v =>
      rw [hget] at h
      simp only at h
      by_cases hp : present v = true
      · rw [if_pos hp] at h
        cases hcfg : cfg.get bit with
        | none => rw [hcfg] at h; simp at h
        | some f =>
          rw [hcfg] at h
          simp only at h
          cases hf : encodeField env f v with
          | ok b =>
            rw [hf] at h
            simp only [Outcome.bind] at h
            cases hr : encodeBits env cfg m bits with
            | ok r =>
              rw [hr] at h
              simp only at h
              injection h with e
              injection e with e1 e2
              subst e1; subst e2
              obtain ⟨h1, h2, h3, parts, hd, hlen, hparts⟩ := ih r.1 r.2 (by rw [hr])
              refine ⟨h1.cons_cons _, ?_, ?_, b :: parts, by simp [hd], by simp [hlen], ?_⟩
              · intro x hx
                rcases List.mem_cons.mp hx with rfl | hx'
                · exact ⟨v, hget, hp⟩
                · exact h2 x hx'
              · intro x hx v' hv' hp'
                rcases List.mem_cons.mp hx with rfl | hx'
                · simp
                · exact List.mem_cons_of_mem _ (h3 x hx' v' hv' hp')
              · intro i hi hi'
                cases i with
                | zero => exact ⟨f, v, by simpa using hcfg, by simpa using hget, by simpa using hf⟩
                | succ j =>
                  simp only [List.getElem_cons_succ]
                  exact hparts j (by simpa using hi) (by simpa using hi')
            | dataError => rw [hr] at h; simp at h
            | escape k => rw [hr] at h; simp at h
            | diverge => rw [hr] at h; simp at h
          | dataError => rw [hf] at h; simp [Outcome.bind] at h
          | escape k => rw [hf] at h; simp [Outcome.bind] at h
          | diverge => rw [hf] at h; simp [Outcome.bind] at h
      · have hp' : present v = false := by simpa using hp
        rw [hp'] at h
        simp only [Bool.false_eq_true, if_false] at h
        obtain ⟨h1, h2, h3, h4⟩ := ih pres data h
        refine ⟨h1.cons _, h2, ?_, h4⟩
        intro b hb v' hv' hpv
        rcases List.mem_cons.mp hb with rfl | hb'
        · rw [hget] at hv'; injection hv' with e; subst e; rw [hp'] at hpv; simp at hpv
        · exact h3 b hb' v' hv' hpv

/-- C02(a), whole message: whenever encoding returns, the bytes are MTI ++ bitmap ++ elements, the
    bitmap is the 16 bytes of the 128 flags (bit 1 set; bit n set iff element n is emitted) or their
    32 lowercase hex characters, and the flags read back from the bytes are those flags -/
theorem C02_message_layout (env : Env) (cfg : Config) (hexBitmap : Bool) (m : Dict) (bs : Bytes)
    (h : encodeCore env cfg hexBitmap m = .ok bs) :
    ∃ mti pres data, encodeMti env m = .ok mti ∧ encodeBits env cfg m allBits = .ok (pres, data) ∧
      bs = mti ++ (if hexBitmap then hexlify (bytesOfBits (flagsOf pres)) else bytesOfBits (flagsOf pres)) ++ data ∧
      bitsOfBytes (bytesOfBits (flagsOf pres)) = flagsOf pres ∧
      (flagsOf pres)[0]? = some true ∧
      (∀ n, 2 ≤ n → n ≤ 128 → ((flagsOf pres)[n - 1]? = some true ↔ n ∈ pres)) := by
  unfold encodeCore at h
  cases hb : encodeBits env cfg m ((List.range 127).map (· + 2)) with
  | ok r =>
    rw [hb] at h
    simp only [Outcome.bind] at h
    cases hm : encodeMti env m with
    | ok mti =>
      rw [hm] at h
      simp only at h
      injection h with e
      refine ⟨mti, r.1, r.2, rfl, hb, by rw [← e]; rfl, bitsOfBytes_bytesOfBits 16 _ (by simp [flagsOf]), ?_, ?_⟩
      · simp [flagsOf]
      · intro n h2 h128
        unfold flagsOf
        rw [List.getElem?_map, List.getElem?_range (by omega)]
        have : n - 1 + 1 = n := by omega
        have hne : ¬ (n - 1 = 0) := by omega
        simp [this, hne]
    | dataError => rw [hm] at h; simp at h
    | escape k => rw [hm] at h; simp at h
    | diverge => rw [hm] at h; simp at h
  | dataError => rw [hb] at h; simp [Outcome.bind] at h
  | escape k => rw [hb] at h; simp [Outcome.bind] at h
  | diverge => rw [hb] at h; simp [Outcome.bind] at h

/-- hex rendering: 32 characters, all lowercase hex digits -/
theorem C02_hex_bitmap (pres : List Nat) :
    (hexlify (bitmapOf pres)).length = 32 ∧
    ∀ c ∈ hexlify (bitmapOf pres), (48 ≤ c ∧ c ≤ 57) ∨ (97 ≤ c ∧ c ≤ 102) := by
  refine ⟨by rw [hexlify_length, bitmapOf_length], ?_⟩
  intro c hc
  unfold hexlify at hc
  obtain ⟨x, _, hx⟩ := List.mem_flatMap.mp hc
  have hd : ∀ n, n < 16 → (48 ≤ hexDigitLower n ∧ hexDigitLower n ≤ 57) ∨ (97 ≤ hexDigitLower n ∧ hexDigitLower n ≤ 102) := by
    intro n hn
    unfold hexDigitLower
    by_cases h10 : n < 10
    · left; simp [h10]; omega
    · right; simp [h10]; omega
  simp only [List.mem_cons, List.mem_nil_iff, or_false] at hx
  rcases hx with rfl | rfl
  · exact hd _ (Nat.mod_lt _ (by decide))
  · exact hd _ (Nat.mod_lt _ (by decide))

/-- C02(c): decoding a message of that layout returns the values it carries plus the derived
    entries: this is C01's statement (the bytes produced by the encoder ARE of the layout, by
    C02(a)), restated here for the reading direction -/
theorem C02_reads_layout {env : Env} (henv : EnvOK env) (cfg : Config) (hexBitmap : Bool) (m : Dict)
    (ds : List Nat) (hds : ∀ d ∈ ds, d < 10) (hl : ds.length = 4)
    (hmti : Dict.get m .mti = some (.str (digitText ds)))
    (hnopds : pdsEntriesOf m = [])
    (hwf : ElemsWF env cfg m allBits) :
    ∃ bs d, encode env cfg hexBitmap m = .ok bs ∧ decode env cfg hexBitmap bs = .ok d ∧
      (∀ bit ∈ allBits, ∀ v, Dict.get m (.de bit) = some v → present v = true →
        ∃ f exp sub, cfg.get bit = some f ∧ WFField env bit f v exp sub ∧ Dict.get d (.de bit) = some exp) := by
  obtain ⟨bs, d, h1, h2, _, h4, _⟩ := C01.C01_roundtrip henv cfg hexBitmap m ds hds hl hmti hnopds hwf
  exact ⟨bs, d, h1, h2, h4⟩

-- sanity tests (evaluated): documentation vectors
#guard
  let env := C01.envOf Gen.latin_1 (fun _ => none)
  encode env Gen.bitConfig true [(.mti, .str [49,49,52,52]), (.de 2, .str [52,52,52,52])] ==
    .ok ([49,49,52,52] ++ [99,48,48,48,48,48,48,48,48,48,48,48,48,48,48,48,48,48,48,48,48,48,48,48,48,48,48,48,48,48,48,48] ++ [48,52,52,52,52,52])
#guard
  let env := C01.envOf Gen.latin_1 (fun _ => none)
  encode env Gen.bitConfig false [(.mti, .str [49,49,52,52]), (.de 2, .str (List.replicate 100 52))] == .dataError

end Cardutil.Props.C02
