import Cardutil.Model.Param
/-
  C18 — parameter extraction returns exactly the requested table's rows and columns.

  `Param.read` is the model of `list(IpmParamReader(file, table_id, …))` over the record list the
  VBS layer delivers.  The statements below say that the two-phase scan IS the declarative
  filter/project specification, for every record list (no bound on rows, tables or interleaving),
  every column layout and every codec.
-/
namespace Cardutil.Props.C18

open Cardutil Cardutil.Py Cardutil.Param

/-- declarative specification of the rows of `table` among the data records:
    keep the records whose table id (looked up through the index for compressed rows, read from
    the record for expanded rows) is the requested one, project the configured columns -/
def specRows (f : Bytes → Option Row) (recs : List Bytes) : List Row := recs.filterMap f

/-- C18(a): if every data record evaluates without a decoding error — to "row `x`" or "not this
    table" — the reader returns exactly the filter/projection of the records, in file order, and
    ends the way the VBS layer ended. -/
theorem C18_rows_eq_spec (c : Codec) (cols : List (Nat × Nat)) (table : Text) (expanded : Bool) (ix : Index)
    (last : PEnd) (f : Bytes → Option Row) (recs : List Bytes)
    (h : ∀ r ∈ recs, rowOf c cols table expanded ix r = .ok (f r)) :
    rowsOf c cols table expanded ix last recs = (specRows f recs, last) := by
  induction recs with
  | nil => rfl
  | cons r rs ih =>
    have hr := h r (by simp)
    have := ih (fun x hx => h x (by simp [hx]))
    simp only [rowsOf, hr, this, specRows, List.filterMap_cons]
    cases f r <;> rfl

/-- every byte decodable (true of latin_1, cp500, cp037 on all 256 bytes) -/
def Decodable (c : Codec) (r : Bytes) : Prop := ∀ b ∈ r, (c.dec b).isSome

theorem decode_some {c : Codec} {r : Bytes} (h : Decodable c r) : ∃ t, c.decode r = some t ∧ t.length = r.length := by
  unfold Codec.decode
  induction r with
  | nil => exact ⟨[], rfl, rfl⟩
  | cons b bs ih =>
    obtain ⟨t, ht, hl⟩ := ih (fun x hx => h x (by simp [hx]))
    have hb := h b (by simp)
    cases hd : c.dec b with
    | none => simp [hd] at hb
    | some ch => exact ⟨ch :: t, by simp [List.mapM_cons, hd, ht], by simp [hl]⟩

theorem decodable_slice {c : Codec} {r : Bytes} (h : Decodable c r) (a b : Nat) : Decodable c (slice r a b) := by
  intro x hx
  exact h x (List.mem_of_mem_take (List.mem_of_mem_drop hx))

/-- C18(b): what one matching record yields: the requested table id, the effective timestamp
    (first 10 / 7 characters), the active/inactive code (next character) and every configured
    column equal to the configured character positions — `[start, end)` in an expanded row,
    `[start-8, end-8)` in a compressed one.  (Stated on the decoded slices.) -/
theorem C18_row_columns (c : Codec) (cols : List (Nat × Nat)) (table : Text) (expanded : Bool) (ix : Index)
    (r : Bytes) (row : Row) (h : rowOf c cols table expanded ix r = .ok (some row)) :
    row.tableId = table ∧
    decodeSlice c r 0 (if expanded then 10 else 7) = .ok row.effTs ∧
    decodeSlice c r (if expanded then 10 else 7) (if expanded then 11 else 8) = .ok row.code ∧
    Outcome.mapO (fun (se : Nat × Nat) => decodeSlice c r (se.1 - (if expanded then 0 else 8))
      (se.2 - (if expanded then 0 else 8))) cols = .ok row.cols := by
  unfold rowOf at h
  cases expanded
  · simp only [Bool.false_eq_true, if_false] at h ⊢
    cases h1 : decodeSlice c r 8 11 <;> simp only [h1] at h <;> try (simp at h; done)
    cases h2 : decodeSlice c r 0 7 <;> simp only [h2] at h <;> try (simp at h; done)
    cases h3 : decodeSlice c r 7 8 <;> simp only [h3] at h <;> try (simp at h; done)
    split at h
    · cases h4 : Outcome.mapO (fun (se : Nat × Nat) => decodeSlice c r (se.1 - 8) (se.2 - 8)) cols <;>
        simp only [h4] at h <;> try (simp at h; done)
      simp only [Outcome.ok.injEq, Option.some.injEq] at h
      subst h
      exact ⟨rfl, rfl, rfl, rfl⟩
    · simp at h
  · simp only [if_true] at h ⊢
    cases h1 : decodeSlice c r 11 19 <;> simp only [h1] at h <;> try (simp at h; done)
    cases h2 : decodeSlice c r 0 10 <;> simp only [h2] at h <;> try (simp at h; done)
    cases h3 : decodeSlice c r 10 11 <;> simp only [h3] at h <;> try (simp at h; done)
    split at h
    · cases h4 : Outcome.mapO (fun (se : Nat × Nat) => decodeSlice c r (se.1 - 0) (se.2 - 0)) cols <;>
        simp only [h4] at h <;> try (simp at h; done)
      simp only [Outcome.ok.injEq, Option.some.injEq] at h
      subst h
      exact ⟨rfl, rfl, rfl, rfl⟩
    · simp at h

/-- the table test: an expanded row carries its table id at positions 11..19, a compressed row a
    3-character sub-id at 8..11 that is looked up in the index -/
theorem C18_row_selected (c : Codec) (cols : List (Nat × Nat)) (table : Text) (expanded : Bool) (ix : Index)
    (r : Bytes) (row : Row) (h : rowOf c cols table expanded ix r = .ok (some row)) :
    (expanded = true → decodeSlice c r 11 19 = .ok table) ∧
    (expanded = false → ∃ sub, decodeSlice c r 8 11 = .ok sub ∧ ix.lookup sub = some table) := by
  unfold rowOf at h
  cases expanded
  · simp only [Bool.false_eq_true, if_false] at h
    cases h1 : decodeSlice c r 8 11 <;> simp only [h1] at h <;> try (simp at h; done)
    cases h2 : decodeSlice c r 0 7 <;> simp only [h2] at h <;> try (simp at h; done)
    cases h3 : decodeSlice c r 7 8 <;> simp only [h3] at h <;> try (simp at h; done)
    split at h
    · rename_i key _ _ htid
      exact ⟨by simp, fun _ => ⟨key, rfl, by simpa using htid⟩⟩
    · simp at h
  · simp only [if_true] at h
    cases h1 : decodeSlice c r 11 19 <;> simp only [h1] at h <;> try (simp at h; done)
    cases h2 : decodeSlice c r 0 10 <;> simp only [h2] at h <;> try (simp at h; done)
    cases h3 : decodeSlice c r 10 11 <;> simp only [h3] at h <;> try (simp at h; done)
    split at h
    · rename_i key _ _ htid
      have : key = table := by simpa using htid
      subst this
      exact ⟨fun _ => rfl, by simp⟩
    · simp at h

theorem getElem?_slice {α} (l : List α) (a b i : Nat) :
    (slice l a b)[i]? = if i < b - a then l[a + i]? else none := by
  unfold slice
  rw [List.getElem?_drop, List.getElem?_take]
  by_cases h : i < b - a
  · have : a + i < b := by omega
    simp [h, this]
  · have : ¬ a + i < b := by omega
    simp [h, this]

/-- C18(c): the compressed and the expanded representation of the same logical row give the same
    column values: with an 11-character compressed header and a 19-character expanded header in
    front of the same body, positions `[start-8, end-8)` and `[start, end)` select the same
    characters for every column starting at or after position 19. -/
theorem C18_compressed_eq_expanded (hdrC hdrX body : Bytes) (hC : hdrC.length = 11) (hX : hdrX.length = 19)
    (s e : Nat) (hs : 19 ≤ s) :
    slice (hdrC ++ body) (s - 8) (e - 8) = slice (hdrX ++ body) s e := by
  apply List.ext_getElem?
  intro i
  rw [getElem?_slice, getElem?_slice]
  have hb : e - 8 - (s - 8) = e - s := by omega
  rw [hb]
  by_cases h : i < e - s
  · simp only [h, if_true]
    rw [List.getElem?_append_right (by omega), List.getElem?_append_right (by omega), hC, hX]
    congr 1; omega
  · simp [h]

/-- C18(d): a table without configuration is refused with the library's error … -/
theorem C18_no_config (c : Codec) (table : Text) (expanded : Bool) (recs : List Bytes) (last : PEnd) :
    read c none table expanded recs last = ([], .dataError) ∧
    read c (some []) table expanded recs last = ([], .dataError) := by
  simp [Param.read]

/-- … and so is a file without the index trailer (no record starts with the trailer text). -/
theorem C18_missing_trailer (c : Codec) (cols : List (Nat × Nat)) (hc : cols ≠ []) (table : Text) (expanded : Bool)
    (recs : List Bytes)
    (hdec : ∀ r ∈ recs, Decodable c r)
    (hno : ∀ r ∈ recs, ∀ t, c.decode r = some t → t.take trailerPrefix.length ≠ trailerPrefix) :
    read c (some cols) table expanded recs .eof = ([], .dataError) := by
  have hscan : ∀ ix, scanIndex c recs ix = .ok none := by
    induction recs with
    | nil => intro ix; rfl
    | cons r rs ih =>
      intro ix
      obtain ⟨t, ht, _⟩ := decode_some (hdec r (by simp))
      have hn := hno r (by simp) t ht
      simp only [scanIndex, ht]
      have : (t.take trailerPrefix.length == trailerPrefix) = false := by simpa using hn
      simp only [this, Bool.false_eq_true, if_false]
      exact ih (fun x hx => hdec x (by simp [hx])) (fun x hx => hno x (by simp [hx])) _
  have hne : cols.isEmpty = false := by cases cols <;> simp_all
  simp [Param.read, hne, hscan]

/-- C18(e): rows of other tables interleaved with the wanted ones never show up, and the wanted
    rows keep their file order (a consequence of (a): the result is a `filterMap`). -/
theorem C18_order_preserved (f : Bytes → Option Row) (a b : List Bytes) :
    specRows f (a ++ b) = specRows f a ++ specRows f b := by
  simp [specRows, List.filterMap_append]

-- sanity test (evaluated): index A->IP0040T1, one matching compressed row, one of another table
#guard
  let c : Codec := ⟨some, some⟩
  let idx : Bytes := List.replicate 11 32 ++ ip0000t1 ++ [73,80,48,48,52,48,84,49] ++ List.replicate 216 32 ++ [48,48,49]
  let trailer : Bytes := trailerPrefix
  let row1 : Bytes := [50,48,50,51,48,49,48] ++ [65] ++ [48,48,49] ++ [88,89,90]
  let row2 : Bytes := [50,48,50,51,48,49,48] ++ [65] ++ [48,48,50] ++ [81,81,81]
  (read c (some [(19, 22)]) [73,80,48,48,52,48,84,49] false [idx, trailer, row1, row2] .eof).1.map (·.cols) == [[[88,89,90]]]

end Cardutil.Props.C18
