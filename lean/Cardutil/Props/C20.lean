import Cardutil.Model.Cli
import Cardutil.Props.C01
import Cardutil.Props.C06
/-
  C20 — CSV to IPM to CSV returns the same rows.

  `Cli.csvRow envW envR cfg row` models one row's journey: `mci_csv_to_ipm` drops the empty cells,
  `IpmWriter` encodes the remaining string cells (numbers through `int()`, date-times through the
  date parser), `IpmReader` decodes, `csv.DictWriter` renders each value with `str()` (`cellOf`).
  The `csv` module itself (quoting / parsing of commas, quotes, spaces) and the date parser are
  outside cardutil: they appear as the identity on cells / as the parameter `env.parseDate`.
-/
namespace Cardutil.Props.C20

open Cardutil Cardutil.Iso Cardutil.Py Cardutil.Digits Cardutil.Cli

/-- the journey of a row is exactly: drop empty cells, encode, decode, render with str() -/
theorem C20_row_journey (envW envR : Env) (cfg : Config) (row : Dict) :
    csvRow envW envR cfg row =
      ((encode envW cfg false (row.filter (fun kv => present kv.2))).bind (fun rec =>
        (decode envR cfg false rec).bind (fun d => .ok (d.map (fun kv => (kv.1, cellOf kv.2)))))) := rfl

/-- canonical decimal digits of a number (what `str(int)` prints) -/
def decDigits (n : Nat) : List Nat :=
  if n < 10 then [n] else decDigits (n / 10) ++ [n % 10]
termination_by n
decreasing_by omega

theorem natDigits_eq (n : Nat) : natDigits n = digitText (decDigits n) := by
  induction n using decDigits.induct with
  | case1 n h => rw [natDigits, decDigits]; simp [h, digitText]
  | case2 n h ih => rw [natDigits, decDigits]; simp [h, digitText, ih]

theorem decDigits_lt (n : Nat) : ∀ d ∈ decDigits n, d < 10 := by
  induction n using decDigits.induct with
  | case1 n h => rw [decDigits]; simp [h]
  | case2 n h ih =>
    rw [decDigits]; simp only [h, if_false]
    intro d hd
    rcases List.mem_append.mp hd with h1 | h1
    · exact ih d h1
    · have : d = n % 10 := by simpa using h1
      omega

theorem fromDigits_decDigits (n : Nat) : fromDigits 10 (decDigits n) = n := by
  induction n using decDigits.induct with
  | case1 n h => rw [decDigits]; simp [h, fromDigits]
  | case2 n h ih =>
    rw [decDigits]; simp only [h, if_false]
    rw [fromDigits_append, ih]; omega

theorem decDigits_ne_nil (n : Nat) : decDigits n ≠ [] := by
  rw [decDigits]; split <;> simp

/-- C20 (number cells): a number printed by `str()` and read back by `int()` is the same number,
    and the text `str()` prints for it is again the canonical decimal — a canonical decimal cell
    survives the journey unchanged -/
theorem C20_number_cell {k : IntClasses} (hk : k.Sane) (n : Nat) :
    pyInt k (cellOf (.int (Int.ofNat n))) = some (Int.ofNat n) ∧
    cellOf (.int (Int.ofNat n)) = digitText (decDigits n) := by
  have hcell : cellOf (.int (Int.ofNat n)) = digitText (decDigits n) := by
    simp [cellOf, strInt, fmtInt, fmtNat, natDigits_eq]
  refine ⟨?_, hcell⟩
  rw [hcell, pyInt_digits hk _ (decDigits_lt n) (decDigits_ne_nil n), fromDigits_decDigits]

/-- C20 (text cells): a text value is rendered as itself -/
theorem C20_text_cell (t : Text) : cellOf (.str t) = t := rfl

/-- C20 (date-time cells): rendered as `YYYY-MM-DD HH:MM:SS`, 19 characters -/
theorem C20_datetime_cell (d : DateTime) : (cellOf (.dt d)).length = 19 := by
  simp [cellOf, Cli.pad2]

/-- C20 (empty cells): an empty cell is absent from the message, so it cannot come back with a value
    of its own: the encoder never sees it -/
theorem C20_empty_dropped (row : Dict) (k : Key) (h : Dict.get row k = some (.str [])) :
    (k, Val.str []) ∉ row.filter (fun kv => present kv.2) := by
  intro hm
  have := (List.mem_filter.mp hm).2
  simp [present] at this

/-- C20 (whole table): rows are independent — the output table is the row-wise image of the input
    table, so the number and the order of rows are preserved (file level: C06) -/
theorem C20_rows_independent (envW envR : Env) (cfg : Config) (rows : List Dict) (outs : List (List (Key × Text)))
    (h : Outcome.mapO (csvRow envW envR cfg) rows = .ok outs) :
    outs.length = rows.length ∧
    ∀ i (h1 : i < rows.length) (h2 : i < outs.length), csvRow envW envR cfg rows[i] = .ok outs[i] := by
  induction rows generalizing outs with
  | nil => simp [Outcome.mapO] at h; subst h; exact ⟨rfl, by intro i h1; simp at h1⟩
  | cons r rs ih =>
    simp only [Outcome.mapO] at h
    cases h1 : csvRow envW envR cfg r with
    | ok o =>
      cases h2 : Outcome.mapO (csvRow envW envR cfg) rs with
      | ok os =>
        simp [h1, h2, Outcome.bind] at h
        subst h
        obtain ⟨hl, hi⟩ := ih os h2
        refine ⟨by simp [hl], ?_⟩
        intro i hi1 hi2
        cases i with
        | zero => simpa using h1
        | succ j => simpa using hi j (by simpa using hi1) (by simpa using hi2)
      | dataError => simp [h1, h2, Outcome.bind] at h
      | escape k => simp [h1, h2, Outcome.bind] at h
      | diverge => simp [h1, h2, Outcome.bind] at h
    | dataError => simp [h1, Outcome.bind] at h
    | escape k => simp [h1, Outcome.bind] at h
    | diverge => simp [h1, Outcome.bind] at h

/-- C20 (string columns, end to end): for a row without PDS columns whose present cells are well
    formed for their elements (C01's `WFField`), every supplied column comes back with the `str()`
    of C01's expected value — which for an unprocessed string element is the cell itself -/
theorem C20_row_roundtrip {env : Env} (henv : EnvOK env) (cfg : Config) (row : Dict)
    (ds : List Nat) (hds : ∀ d ∈ ds, d < 10) (hl : ds.length = 4)
    (hmti : Dict.get (row.filter (fun kv => present kv.2)) .mti = some (.str (digitText ds)))
    (hnopds : pdsEntriesOf (row.filter (fun kv => present kv.2)) = [])
    (hwf : ElemsWF env cfg (row.filter (fun kv => present kv.2)) allBits) :
    ∃ d, csvRow env env cfg row = .ok (d.map (fun kv => (kv.1, cellOf kv.2))) ∧
      ∀ bit ∈ allBits, ∀ v, Dict.get (row.filter (fun kv => present kv.2)) (.de bit) = some v → present v = true →
        ∃ f exp sub, cfg.get bit = some f ∧
          WFField env bit f v exp sub ∧ Dict.get d (.de bit) = some exp := by
  obtain ⟨bs, d, h1, h2, _, h4, _⟩ := C01.C01_roundtrip henv cfg false _ ds hds hl hmti hnopds hwf
  refine ⟨d, ?_, h4⟩
  rw [C20_row_journey, h1]
  simp only [Outcome.bind, h2]

/-- the cell stored under column `k` of an output row -/
def cellAt (out : List (Key × Text)) (k : Key) : Option Text := (out.find? (·.1 == k)).map (·.2)

theorem cellAt_map (d : Dict) (k : Key) :
    cellAt (d.map (fun kv => (kv.1, cellOf kv.2))) k = (Dict.get d k).map cellOf := by
  unfold cellAt Dict.get
  induction d with
  | nil => rfl
  | cons kv d ih =>
    simp only [List.map_cons, List.find?_cons]
    cases h : kv.1 == k
    · simpa using ih
    · simp

/-- a cell in the form the tools themselves print: text as it is (element without PAN masking),
    a number as its canonical decimal, a date-time as `YYYY-MM-DD HH:MM:SS` -/
inductive CanonCell (f : FieldCfg) : Text → Val → Prop
  | text (t : Text) (h1 : f.proc ≠ .pan) (h2 : f.proc ≠ .panPrefix) : CanonCell f t (.str (transform f t))
  | number (n : Nat) : CanonCell f (digitText (decDigits n)) (.int (Int.ofNat n))
  | date (d : DateTime) : CanonCell f (cellOf (.dt d)) (.dt d)

theorem canon_cell {f : FieldCfg} {t : Text} {exp : Val} (h : CanonCell f t exp) : cellOf exp = t := by
  cases h with
  | text t h1 h2 =>
    have : transform f t = t := by
      unfold transform
      split
      · rename_i h; exact absurd h h1
      · rename_i h; exact absurd h h2
      · rfl
    rw [this]; rfl
  | number n => simp [cellOf, strInt, fmtInt, fmtNat, natDigits_eq]
  | date d => rfl

/-- C20 (end to end, every kind of column): for a row without PDS columns whose present cells are
    well formed for their elements and in the form the tools print (`CanonCell`: plain text, a
    canonical decimal for a numeric element, `YYYY-MM-DD HH:MM:SS` for a date-time element), the
    row that comes back holds, under every supplied column, EXACTLY the cell that went in -/
theorem C20_row_cells {env : Env} (henv : EnvOK env) (cfg : Config) (row : Dict)
    (ds : List Nat) (hds : ∀ d ∈ ds, d < 10) (hl : ds.length = 4)
    (hmti : Dict.get (row.filter (fun kv => present kv.2)) .mti = some (.str (digitText ds)))
    (hnopds : pdsEntriesOf (row.filter (fun kv => present kv.2)) = [])
    (hwf : ElemsWF env cfg (row.filter (fun kv => present kv.2)) allBits)
    (hcanon : ∀ bit f t exp sub, cfg.get bit = some f →
        Dict.get (row.filter (fun kv => present kv.2)) (.de bit) = some (.str t) →
        WFField env bit f (.str t) exp sub → CanonCell f t exp) :
    ∃ out, csvRow env env cfg row = .ok out ∧
      cellAt out .mti = some (digitText ds) ∧
      ∀ bit ∈ allBits, ∀ t, Dict.get (row.filter (fun kv => present kv.2)) (.de bit) = some (.str t) → t ≠ [] →
        cellAt out (.de bit) = some t := by
  obtain ⟨bs, d, h1, h2, h3, h4, _⟩ := C01.C01_roundtrip henv cfg false _ ds hds hl hmti hnopds hwf
  refine ⟨d.map (fun kv => (kv.1, cellOf kv.2)), ?_, ?_, ?_⟩
  · rw [C20_row_journey, h1]
    simp only [Outcome.bind, h2]
  · rw [cellAt_map, h3]; rfl
  · intro bit hb t hget hne
    have hp : present (.str t) = true := by cases t <;> simp_all [present]
    obtain ⟨f, exp, sub, hcfg, hw, hd⟩ := h4 bit hb _ hget hp
    rw [cellAt_map, hd]
    simp only [Option.map_some]
    rw [canon_cell (hcanon bit f t exp sub hcfg hget hw)]

/-- non-vacuity: DE4 of the packaged configuration takes the canonical decimal cell "12" — it is
    well formed (`WFField.intText`) and in printed form (`CanonCell.number`) -/
example (pd : Text → Option DateTime) :
    ∃ f, Gen.bitConfig.get 4 = some f ∧
      WFField (C01.envOf Gen.cp500 pd) 4 f (.str (digitText (decDigits 12))) (.int (Int.ofNat 12)) [] ∧
      CanonCell f (digitText (decDigits 12)) (.int (Int.ofNat 12)) := by
  refine ⟨_, rfl, ?_, CanonCell.number 12⟩
  refine WFField.intText _ 12 rfl rfl rfl (by decide) ?_ ?_ (by decide)
  · have := decDigits_ne_nil 12
    intro h; apply this
    cases hd : decDigits 12 with
    | nil => rfl
    | cons a b => rw [hd] at h; simp [digitText] at h
  · have h := pyInt_digits (C01.envOK_cp500 pd).sane _ (decDigits_lt 12) (decDigits_ne_nil 12)
    rw [fromDigits_decDigits] at h
    exact h

-- sanity test (evaluated): MTI, DE2 with a comma and quotes, DE4 as canonical decimal, DE12 as ISO date-time
#guard
  let env : Env := { classes := Gen.intClasses, codec := Gen.cp500, de43 := fun _ _ => [],
                     parseDate := fun t => if t == [50,48,50,52,45,48,50,45,50,57,32,50,51,58,53,57,58,53,57]
                                            then some ⟨2024, 2, 29, 23, 59, 59⟩ else none }
  (csvRow env env Gen.bitConfig
      [(.mti, .str [49,50,52,48]), (.de 2, .str [44,34,32,34]), (.de 4, .str [49,50]), (.de 3, .str []),
       (.de 12, .str [50,48,50,52,45,48,50,45,50,57,32,50,51,58,53,57,58,53,57])]) ==
    .ok [(.mti, [49,50,52,48]), (.de 2, [44,34,32,34]), (.de 4, [49,50]),
         (.de 12, [50,48,50,52,45,48,50,45,50,57,32,50,51,58,53,57,58,53,57])]

end Cardutil.Props.C20
