import Cardutil.Lemmas.Pds
import Cardutil.Lemmas.Dict
import Cardutil.Lemmas.Sort
import Cardutil.Lemmas.IsoPds
/-
  C12 — PDS sub-elements are packed into carrier elements and recovered without loss.

  `ents : List (Text × Text)` are the sub-elements (4-character tag, value) in the order the
  encoder visits them (sorted by key).  `pdsPack (ents.map entry) []` is the list of carrier
  strings `_pds_to_de` produces; `assignCarriers` hands them to the carrier elements in ascending
  order; `pdsToDict` is the walk `_pds_to_dict` performs on each carrier when decoding.
  No bound on the number of sub-elements or carriers.
-/
namespace Cardutil.Props.C12

open Cardutil Cardutil.Iso Cardutil.Py Cardutil.Digits

/-- the text of one sub-element: tag(4) length(3) value -/
def entry (e : Text × Text) : Text := entryOf e.1 e.2

/-- the property's domain: 4-character tags, values of 0..992 characters -/
def WF (ents : List (Text × Text)) : Prop := ∀ e ∈ ents, e.1.length = 4 ∧ e.2.length ≤ 992

theorem entry_length {e : Text × Text} (h : e.1.length = 4 ∧ e.2.length ≤ 992) : (entry e).length = 7 + e.2.length :=
  entryOf_length e.1 e.2 h.1 (by omega)

/-- what the encoder writes for a 4-digit tag key is exactly `tag ++ 3-digit length ++ value`:
    `f'{int(key[3:]):04}{len(v):03}{v}'` reproduces the four key digits -/
theorem C12_entry_format (ds : List Nat) (hd : ∀ d ∈ ds, d < 10) (hl : ds.length = 4) (v : Text) :
    pdsEntry (Int.ofNat (fromDigits 10 ds)) v = entryOf (digitText ds) v := by
  have hlt : fromDigits 10 ds < 10 ^ 4 := by
    have := fromDigits_lt ds hd; rwa [hl] at this
  have : fmtNat 4 (fromDigits 10 ds) = digitText ds := by
    unfold fmtNat
    rw [if_pos ⟨by decide, hlt⟩]
    have := toDigits_fromDigits ds hd
    rw [hl] at this
    rw [this]; rfl
  simp [pdsEntry, fmtInt, this, entryOf, List.append_assoc]

/-- C12(a): the carrier strings, concatenated, are the sub-elements in encoder order, each as
    tag(4) length(3) value — nothing dropped, duplicated or moved -/
theorem C12_content (ents : List (Text × Text)) :
    (pdsPack (ents.map entry) []).flatten = (ents.map entry).flatten := by
  rw [pdsPack_flatten]; rfl

/-- C12(b): every carrier string holds at most 999 characters -/
theorem C12_capacity (ents : List (Text × Text)) (h : WF ents) : ∀ c ∈ pdsPack (ents.map entry) [], c.length ≤ 999 := by
  apply pdsPack_le _ _ (by simp)
  intro e he
  obtain ⟨x, hx, rfl⟩ := List.mem_map.mp he
  rw [entry_length (h x hx)]
  have := (h x hx).2; omega

/-- C12(c): no sub-element is split between carriers, and packing is greedy: the carrier strings
    are concatenations of WHOLE entries, the groups in order are exactly the entries in order, and
    a carrier is closed only when the next entry would not fit in 999 characters -/
theorem C12_whole_entries_greedy (ents : List (Text × Text)) (h : WF ents) :
    ∃ groups : List (List Text),
      pdsPack (ents.map entry) [] = groups.map List.flatten ∧
      groups.flatten = ents.map entry ∧
      (∀ g ∈ groups, g ≠ []) ∧
      GreedyChain groups := by
  have hne : ∀ e ∈ ents.map entry, e ≠ [] := by
    intro e he
    obtain ⟨x, hx, rfl⟩ := List.mem_map.mp he
    intro h0
    have := entry_length (h x hx)
    rw [h0] at this; simp at this; omega
  refine ⟨pdsPackG (ents.map entry) [], ?_, ?_, ?_, pdsPackG_greedy _ _⟩
  · have := pdsPack_groups (ents.map entry) [] hne (by simp)
    simpa using this
  · simpa using pdsPackG_flatten (ents.map entry) []
  · -- a group is never empty: groups are only emitted when non-empty or closed after an overflow
    intro g hg hge
    subst hge
    -- an empty group would contribute nothing to the flatten, but can only be the initial `[]`
    -- followed by an overflow, which needs an entry longer than 999
    have key : ∀ (es : List Text) (cur : List Text), (∀ e ∈ es, e.length ≤ 999) → (cur = [] ∨ cur ≠ []) →
        [] ∈ pdsPackG es cur → cur = [] ∧ False := by
      intro es
      induction es with
      | nil =>
        intro cur _ _ hm
        simp only [pdsPackG] at hm
        split at hm
        · simp at hm
        · rename_i hc
          have : cur = [] := (List.mem_singleton.mp hm).symm
          subst this; simp at hc
      | cons e es ih =>
        intro cur hle _ hm
        simp only [pdsPackG] at hm
        split at hm
        · rename_i hgt
          rcases List.mem_cons.mp hm with h0 | h0
          · subst h0
            have := hle e (by simp)
            simp at hgt; omega
          · exact absurd (ih [e] (fun x hx => hle x (by simp [hx])) (Or.inr (by simp)) h0).1 (by simp)
        · exact absurd (ih (cur ++ [e]) (fun x hx => hle x (by simp [hx])) (Or.inr (by simp)) hm).1 (by simp)
    have hle : ∀ e ∈ ents.map entry, e.length ≤ 999 := by
      intro e he
      obtain ⟨x, hx, rfl⟩ := List.mem_map.mp he
      rw [entry_length (h x hx)]
      have := (h x hx).2; omega
    exact (key _ [] hle (Or.inl rfl) hg).2

/-- C12(d): the packed strings go to the carrier elements in ascending element order: the i-th
    string becomes the value of the i-th carrier (overriding any value supplied for it), and the
    other entries of the message are untouched -/
theorem C12_assign (carriers : List Nat) (chunks : List Text) (m : Dict) (hlen : chunks.length ≤ carriers.length)
    (hnd : carriers.Nodup) :
    ∃ m', assignCarriers carriers chunks m = .ok m' ∧
      (∀ i (hi : i < chunks.length), Dict.get m' (.de (carriers[i]'(by omega))) = some (.str chunks[i])) ∧
      (∀ k, (∀ i (hi : i < chunks.length), k ≠ .de (carriers[i]'(by omega))) → Dict.get m' k = Dict.get m k) :=
  assignCarriers_spec carriers chunks m hlen hnd

/-- C12(e): decoding a carrier that holds whole sub-elements returns exactly those sub-elements;
    with pairwise different tags every `PDSxxxx` entry reads back its own value, unchanged —
    zero-length values and values that look like tag/length headers included (values are
    arbitrary texts) -/
theorem C12_recover {k : IntClasses} (hk : k.Sane) (group : List (Text × Text)) (h : WF group)
    (hnd : (group.map (·.1)).Nodup) :
    ∃ d, pdsToDict k (group.map entry).flatten = .ok d ∧
      ∀ e ∈ group, Dict.get d (.pds e.1) = some (.str e.2) := by
  have hflat : (group.map entry).flatten = group.flatMap (fun e => entryOf e.1 e.2) := by
    rw [List.flatMap_def]; rfl
  rw [hflat, pdsToDict_entries hk group (fun e he => ⟨(h e he).1, by have := (h e he).2; omega⟩)]
  refine ⟨_, rfl, ?_⟩
  intro e he
  have hfold : group.foldl (fun a e => Dict.set a (.pds e.1) (.str e.2)) [] =
      (group.map (fun e => ((Key.pds e.1, Val.str e.2) : Key × Val))).foldl (fun a e => Dict.set a e.1 e.2) [] := by
    rw [List.foldl_map]
  rw [hfold]
  apply Dict.get_foldl_set
  · rw [List.map_map]
    have : ((fun (e : Key × Val) => e.1) ∘ fun (e : Text × Text) => ((Key.pds e.1, Val.str e.2) : Key × Val)) =
        (fun e => Key.pds e.1) := rfl
    rw [this]
    have hinj : ∀ a b : Text, Key.pds a = Key.pds b → a = b := by intro a b hab; injection hab
    have hmap : ∀ l : List Text, l.Nodup → (l.map Key.pds).Nodup := by
      intro l hl
      induction l with
      | nil => simp
      | cons x xs ih =>
        simp only [List.nodup_cons, List.map_cons] at hl ⊢
        refine ⟨?_, ih hl.2⟩
        intro hx
        obtain ⟨y, hy, hxy⟩ := List.mem_map.mp hx
        exact hl.1 (hinj _ _ hxy ▸ hy)
    have := hmap _ hnd
    rw [List.map_map] at this
    exact this
  · exact List.mem_map.mpr ⟨e, he, rfl⟩

/-- C12(f): the encoder visits the sub-elements in ASCENDING tag order, whatever the insertion
    order of the keys in the message: the list it packs is ordered by the key text (Python's
    string order), which for 4-digit tags is the numeric order of the tags; and it is a
    permutation of the message's PDS entries (none lost, none invented) -/
theorem C12_ascending_order (m : Dict) :
    SortedByKey (sortPds (pdsEntriesOf m)) ∧ (sortPds (pdsEntriesOf m)).Perm (pdsEntriesOf m) :=
  ⟨sortPds_sorted _, sortPds_perm _⟩

theorem C12_tag_order_numeric (a b : List Nat) (ha : a.length = 4) (hb : b.length = 4)
    (hda : ∀ d ∈ a, d < 10) (hdb : ∀ d ∈ b, d < 10) :
    textLt (digitText a) (digitText b) = true ↔ fromDigits 10 a < fromDigits 10 b :=
  textLt_digits a b (by rw [ha, hb]) hda hdb

/-- non-vacuity: two sub-elements (one empty, one that looks like a header) in the domain -/
example : WF [([48,48,50,51], []), ([48,49,52,56], [48,48,48,49,48,48,51])] := by
  intro e he
  simp at he
  rcases he with rfl | rfl <;> simp

-- sanity tests (evaluated): the 999 threshold — 7+492 + 7+493 = 999 fits in one carrier, one more character does not
#guard (pdsPack [entryOf [48,48,48,49] (List.replicate 492 65), entryOf [48,48,48,50] (List.replicate 493 66)] []).length == 1
#guard (pdsPack [entryOf [48,48,48,49] (List.replicate 492 65), entryOf [48,48,48,50] (List.replicate 494 66)] []).length == 2

end Cardutil.Props.C12
