import Cardutil.Lemmas.Vbs
import Cardutil.Props.C03
/-
  C11 — closing a writer finalises the file exactly once, however close is reached.

  `Writer.run P blocked recs fins`: a fresh writer on an empty file (io.BytesIO or a file opened
  'wb'), one `write` per record, then the finalisation history `fins` over {close(), `with` exit}.
  The model keeps the file position, so a write after the rewind would overwrite — exactly what
  happened before the writer kept a finalised flag.
-/
namespace Cardutil.Props.C11

open Cardutil Cardutil.Block

/-- every non-empty finalisation history leaves the same writer state as a single `close()`,
    for every record list, blocked or not -/
theorem C11_finalise_once (blocked : Bool) (recs : List Bytes) (f : Writer.Fin) (fs : List Writer.Fin) :
    Writer.run 1012 blocked recs (f :: fs) = Writer.run 1012 blocked recs [.close] := by
  unfold Writer.run
  rw [Writer.fins_eq_close, Writer.fins_eq_close]

/-- hence the file reads back as exactly the records written -/
theorem C11_reads_back (blocked : Bool) (recs : List Bytes)
    (h : ∀ r ∈ recs, 0 < r.length ∧ r.length ≤ 6000) (f : Writer.Fin) (fs : List Writer.Fin) :
    vbsBytesToList 1012 6000 blocked (Writer.run 1012 blocked recs (f :: fs)).file.data = (recs, .eof) := by
  rw [C11_finalise_once]
  exact C03.C03_roundtrip blocked recs h

/-- a second finalisation is the identity on the whole writer state (file bytes and position,
    blocker state) -/
theorem C11_second_is_identity (s : Writer.St) :
    Writer.close 1012 (Writer.close 1012 s) = Writer.close 1012 s :=
  Writer.close_idem 1012 s

-- sanity tests (evaluated)
#guard (Writer.run 1012 false [[1, 2]] [.close, .exit, .close]).file.data == [0, 0, 0, 2, 1, 2, 0, 0, 0, 0]
#guard (Writer.run 1012 true [[1, 2]] [.exit, .close]).file.data.length == 1014

end Cardutil.Props.C11
