import Cardutil.Lemmas.IsoDict
import Cardutil.Lemmas.IsoPds
import Cardutil.Gen.Config
import Cardutil.Gen.Codecs
import Cardutil.Gen.PyTables
import Cardutil.Lemmas.Time
/-
  C01 — ISO8583 round trip: decoding an encoded message returns every value unchanged.

  `Iso.encode env cfg hex m` / `Iso.decode env cfg hex bs` model `dumps` / `loads`.
  The statement is GENERIC: any configuration `cfg`, any environment `env` satisfying `EnvOK`
  (a codec that decodes what it encodes and can encode the decimal digits, sane `int()` classes,
  a DE43 splitter that only adds DE43_* keys), both bitmap renderings, and every message whose
  present elements are well formed (`WFField`: the property's "fits its configured field").
  No bound on lengths, subsets or values.
-/
namespace Cardutil.Props.C01

open Cardutil Cardutil.Iso Cardutil.Py Cardutil.Digits

/-- without `PDSxxxx` keys nothing is packed and no carrier is overridden -/
theorem encode_no_pds (env : Env) (cfg : Config) (hexBitmap : Bool) (m : Dict) (h : pdsEntriesOf m = []) :
    encode env cfg hexBitmap m = encodeCore env cfg hexBitmap m := by
  have hp : pdsToDe env.classes m = .ok [] := by
    unfold pdsToDe
    rw [h]
    rfl
  unfold encode
  rw [hp]
  cases hc : pdsCarriers cfg <;> simp [Outcome.bind, assignCarriers]

/-- C01 (data elements): for every message with a 4-digit MTI whose present elements are well
    formed, decoding the encoded bytes succeeds and returns
    * the MTI unchanged,
    * for every present element its value unchanged (its masked form / prefix where the element
      is configured for PAN masking / PAN prefix — `WFField` names that expected value),
    * and nothing else but derived entries (PDSxxxx, TAGxxxx, ICC_DATA, DE43_*). -/
theorem C01_roundtrip {env : Env} (henv : EnvOK env) (cfg : Config) (hexBitmap : Bool) (m : Dict)
    (ds : List Nat) (hds : ∀ d ∈ ds, d < 10) (hl : ds.length = 4)
    (hmti : Dict.get m .mti = some (.str (digitText ds)))
    (hnopds : pdsEntriesOf m = [])
    (hwf : ElemsWF env cfg m allBits) :
    ∃ bs d, encode env cfg hexBitmap m = .ok bs ∧ decode env cfg hexBitmap bs = .ok d ∧
      Dict.get d .mti = some (.str (digitText ds)) ∧
      (∀ bit ∈ allBits, ∀ v, Dict.get m (.de bit) = some v → present v = true →
        ∃ f exp sub, cfg.get bit = some f ∧ WFField env bit f v exp sub ∧ Dict.get d (.de bit) = some exp) ∧
      (∀ kv ∈ d, kv.1 = .mti ∨
        (∃ bit v, kv.1 = .de bit ∧ Dict.get m (.de bit) = some v ∧ present v = true) ∨
        kv.1.isDerived = true) := by
  obtain ⟨bs, items, henc, hdec, hsub, hitems, hcover⟩ := core_roundtrip henv cfg hexBitmap m ds hds hl hmti hwf
  have hnd : (items.map (·.bit)).Nodup := sublist_nodup hsub range2_nodup
  have hder : ∀ it ∈ items, DerivedOnly it.sub := by
    intro it hit
    obtain ⟨v, f, _, _, _, hw⟩ := hitems it hit
    exact wf_sub_derived henv hw
  refine ⟨bs, _, by rw [encode_no_pds _ _ _ _ hnopds]; exact henc, hdec, ?_, ?_, ?_⟩
  · rw [applyItems_get_untouched _ items _ (fun it hit => item_get_mti it (hder it hit)), Dict.get_cons]
    simp
  · intro bit hb v hv hp
    have hmem := hcover bit hb v hv hp
    obtain ⟨it, hit, hbit⟩ := List.mem_map.mp hmem
    obtain ⟨v', f, hv', _, hcfg, hw⟩ := hitems it hit
    rw [hbit] at hv' hcfg hw
    rw [hv] at hv'
    injection hv' with e
    subst e
    refine ⟨f, it.exp, it.sub, hcfg, hw, ?_⟩
    rw [← hbit]
    exact applyItems_get_de _ items hnd hder it hit
  · intro kv hkv
    rcases applyItems_mem _ items kv hkv with h1 | ⟨it, hit, h1⟩
    · left
      have : kv = (Key.mti, Val.str (digitText ds)) := by simpa using h1
      rw [this]
    · obtain ⟨v, f, hv, hp, _, _⟩ := hitems it hit
      rcases h1 with h2 | h2 | ⟨v', h2⟩
      · right; left; exact ⟨it.bit, v, h2, hv, hp⟩
      · right; right; exact hder it hit kv h2
      · right; right; exact hder it hit (kv.1, v') h2

/-- under a configuration that leaves the PDS carriers alone (what the conversion tools read
    with), the decoded dictionary holds no `PDSxxxx` key: encoding it packs nothing -/
theorem C01_decoded_no_pds {env : Env} (henv : EnvOK env) (cfg : Config) (hexBitmap : Bool) (m : Dict)
    (hnp : ∀ bit f, cfg.get bit = some f → f.proc ≠ .pds)
    (ds : List Nat) (hds : ∀ d ∈ ds, d < 10) (hl : ds.length = 4)
    (hmti : Dict.get m .mti = some (.str (digitText ds)))
    (hwf : ElemsWF env cfg m allBits) (bs : Bytes) (d : Dict)
    (henc : encodeCore env cfg hexBitmap m = .ok bs) (hdec : decode env cfg hexBitmap bs = .ok d) :
    pdsEntriesOf d = [] := by
  obtain ⟨bs', items, henc', hdec', _, hitems, _⟩ := core_roundtrip henv cfg hexBitmap m ds hds hl hmti hwf
  rw [henc] at henc'
  injection henc' with e
  subst e
  rw [hdec] at hdec'
  injection hdec' with e
  subst e
  unfold pdsEntriesOf
  rw [List.filterMap_eq_nil_iff]
  intro kv hkv
  rcases applyItems_mem _ items kv hkv with h1 | ⟨it, hit, h1⟩
  · have : kv = (Key.mti, Val.str (digitText ds)) := by simpa using h1
    rw [this]
  · obtain ⟨v, f, _, _, hcfg, hw⟩ := hitems it hit
    have hsubn := wf_sub_nopds henv hw (hnp _ f hcfg)
    rcases h1 with h2 | h2 | ⟨v', h2⟩
    · rw [h2]
    · have := hsubn kv h2
      cases hk : kv.1 with
      | pds t => exact absurd hk (this t)
      | _ => rfl
    · have := hsubn (kv.1, v') h2
      cases hk : kv.1 with
      | pds t => exact absurd hk (this t)
      | _ => rfl

/-! ## the environment hypotheses hold for the generated tables (re-checked on every run) -/

/-- table form of `Codec.Lawful` for a codec built with `Codec.ofTables` -/
def lawfulTables (dec encLow : Array (Option Nat)) (encHigh : List (Nat × Nat)) : Bool :=
  (List.range 256).all (fun ch =>
    match (encLow[ch]?).join with
    | some b => (dec[b]?).join == some ch
    | none => true) &&
  encHigh.all (fun e => 256 ≤ e.1 && (dec[e.2]?).join == some e.1) &&
  (encHigh.map (·.1)).Nodup

theorem lawful_of_tables (dec encLow : Array (Option Nat)) (encHigh : List (Nat × Nat))
    (h : lawfulTables dec encLow encHigh = true) : (Codec.ofTables dec encLow encHigh).Lawful := by
  unfold lawfulTables at h
  simp only [Bool.and_eq_true, List.all_eq_true, decide_eq_true_eq] at h
  obtain ⟨⟨h1, h2⟩, _⟩ := h
  intro ch b he
  simp only [Codec.ofTables] at he ⊢
  by_cases hlt : ch < 256
  · simp only [hlt, if_true] at he
    have := h1 ch (by simpa using hlt)
    rw [he] at this
    simpa using this
  · simp only [hlt, if_false] at he
    cases hf : encHigh.find? (·.1 == ch) with
    | none => simp [hf] at he
    | some e =>
      simp [hf] at he
      have hmem := List.mem_of_find?_eq_some hf
      have hkey := List.find?_some hf
      have := h2 e hmem
      simp only [Bool.and_eq_true, decide_eq_true_eq, beq_iff_eq] at this hkey
      rw [← he, this.2, hkey]

theorem latin1_lawful : Gen.latin_1.Lawful :=
  lawful_of_tables _ _ _ (by decide +kernel)
theorem cp500_lawful : Gen.cp500.Lawful :=
  lawful_of_tables _ _ _ (by decide +kernel)
theorem cp037_lawful : Gen.cp037.Lawful :=
  lawful_of_tables _ _ _ (by decide +kernel)

theorem intClasses_sane : Gen.intClasses.Sane := by
  constructor
  · intro d hd
    have : d = 0 ∨ d = 1 ∨ d = 2 ∨ d = 3 ∨ d = 4 ∨ d = 5 ∨ d = 6 ∨ d = 7 ∨ d = 8 ∨ d = 9 := by omega
    rcases this with rfl | rfl | rfl | rfl | rfl | rfl | rfl | rfl | rfl | rfl <;> decide
  · intro d hd
    have : d = 0 ∨ d = 1 ∨ d = 2 ∨ d = 3 ∨ d = 4 ∨ d = 5 ∨ d = 6 ∨ d = 7 ∨ d = 8 ∨ d = 9 := by omega
    rcases this with rfl | rfl | rfl | rfl | rfl | rfl | rfl | rfl | rfl | rfl <;> decide

/-- the environment the driver uses for a generated codec: measured classes, no DE43 keys in the
    model's dictionary (they are applied by Python's `re` in the harness) -/
def envOf (c : Codec) (parseDate : Text → Option DateTime) : Env :=
  { classes := Gen.intClasses, codec := c, de43 := fun _ _ => [], parseDate := parseDate }

theorem envOK_of (c : Codec) (pd : Text → Option DateTime) (hl : c.Lawful)
    (hd : ∀ d, d < 10 → ∃ b, c.enc (48 + d) = some b) : EnvOK (envOf c pd) :=
  ⟨intClasses_sane, hl, hd, by intro _ _ kv hkv; simp [envOf] at hkv⟩

theorem digits_encodable (c : Codec) (h : (List.range 10).all (fun d => (c.enc (48 + d)).isSome) = true) :
    ∀ d, d < 10 → ∃ b, c.enc (48 + d) = some b := by
  intro d hd
  have := List.all_eq_true.mp h d (by simpa using hd)
  exact Option.isSome_iff_exists.mp this

theorem envOK_latin1 (pd : Text → Option DateTime) : EnvOK (envOf Gen.latin_1 pd) :=
  envOK_of _ pd latin1_lawful (digits_encodable _ (by decide +kernel))
theorem envOK_cp500 (pd : Text → Option DateTime) : EnvOK (envOf Gen.cp500 pd) :=
  envOK_of _ pd cp500_lawful (digits_encodable _ (by decide +kernel))
theorem envOK_cp037 (pd : Text → Option DateTime) : EnvOK (envOf Gen.cp037 pd) :=
  envOK_of _ pd cp037_lawful (digits_encodable _ (by decide +kernel))

/-- C01 at the packaged configuration and the three production codecs (ASCII- and EBCDIC-family) -/
theorem C01_roundtrip_packaged (pd : Text → Option DateTime) (c : Codec)
    (hc : c = Gen.latin_1 ∨ c = Gen.cp500 ∨ c = Gen.cp037) (hexBitmap : Bool) (m : Dict)
    (ds : List Nat) (hds : ∀ d ∈ ds, d < 10) (hl : ds.length = 4)
    (hmti : Dict.get m .mti = some (.str (digitText ds)))
    (hnopds : pdsEntriesOf m = [])
    (hwf : ElemsWF (envOf c pd) Gen.bitConfig m allBits) :
    ∃ bs d, encode (envOf c pd) Gen.bitConfig hexBitmap m = .ok bs ∧
      decode (envOf c pd) Gen.bitConfig hexBitmap bs = .ok d ∧
      Dict.get d .mti = some (.str (digitText ds)) ∧
      (∀ bit ∈ allBits, ∀ v, Dict.get m (.de bit) = some v → present v = true →
        ∃ f exp sub, Gen.bitConfig.get bit = some f ∧ WFField (envOf c pd) bit f v exp sub ∧
          Dict.get d (.de bit) = some exp) := by
  have henv : EnvOK (envOf c pd) := by
    rcases hc with rfl | rfl | rfl
    · exact envOK_latin1 pd
    · exact envOK_cp500 pd
    · exact envOK_cp037 pd
  obtain ⟨bs, d, h1, h2, h3, h4, _⟩ := C01_roundtrip henv Gen.bitConfig hexBitmap m ds hds hl hmti hnopds hwf
  exact ⟨bs, d, h1, h2, h3, h4⟩

/-- C01 (PDS sub-elements): a message that supplies `PDSxxxx` keys — distinct 4-digit tags, values
    of 0..992 encodable characters, total within the carriers' capacity, not mixed with directly
    supplied carriers (`PdsOK`) — round-trips every data element AND every PDS sub-element, wherever
    the carrier boundaries fall.  (The carrier elements themselves appear in the result as derived
    entries.) -/
theorem C01_roundtrip_pds {env : Env} (henv : EnvOK env) (cfg : Config) (hexBitmap : Bool) (m : Dict)
    (ents : List (Text × Text)) (hp : PdsOK env cfg m ents)
    (ds : List Nat) (hds : ∀ d ∈ ds, d < 10) (hl : ds.length = 4)
    (hmti : Dict.get m .mti = some (.str (digitText ds)))
    (hwf : ElemsWF env cfg m allBits) :
    ∃ bs d, encode env cfg hexBitmap m = .ok bs ∧ decode env cfg hexBitmap bs = .ok d ∧
      Dict.get d .mti = some (.str (digitText ds)) ∧
      (∀ bit ∈ allBits, ∀ v, Dict.get m (.de bit) = some v → present v = true →
        ∃ f exp sub, cfg.get bit = some f ∧ WFField env bit f v exp sub ∧ Dict.get d (.de bit) = some exp) ∧
      (∀ e ∈ ents, Dict.get d (.pds e.1) = some (.str e.2)) :=
  pds_roundtrip henv cfg hexBitmap m ents hp ds hds hl hmti hwf

/-- the message's PDS entries are exactly `ents` up to order (the encoder sorts them) -/
theorem C01_pds_entries_perm {env : Env} {cfg : Config} {m : Dict} {ents : List (Text × Text)}
    (hp : PdsOK env cfg m ents) : (ents.map (fun e => (e.1, Val.str e.2))).Perm (pdsEntriesOf m) := by
  rw [← hp.entries]; exact sortPds_perm _

def sampleMsg : Dict := [(.mti, .str [49,49,52,52]), (.de 2, .str [52,52,52,52,53,53,53,53]), (.de 4, .int 12)]

/-- non-vacuity of `ElemsWF` (proved, not evaluated): the sample message — a string element and a
    numeric one — is well formed under each production codec, for any configuration that gives
    DE2 and DE4 their packaged definitions -/
theorem sample_wf (pd : Text → Option DateTime) (c : Codec)
    (hc : c = Gen.latin_1 ∨ c = Gen.cp500 ∨ c = Gen.cp037) (cfg : Config)
    (h2 : cfg.get 2 = some { ftype := .llvar, length := 0, proc := .none, pytype := .str, dateFmt := [] })
    (h4 : cfg.get 4 = some { ftype := .fixed, length := 12, proc := .none, pytype := .int, dateFmt := [] }) :
    ElemsWF (envOf c pd) cfg sampleMsg allBits := by
  intro bit hb v hv hp
  have hbit : (bit = 2 ∧ v = .str [52,52,52,52,53,53,53,53]) ∨ (bit = 4 ∧ v = .int 12) := by
    simp only [sampleMsg, Dict.get, List.find?_cons] at hv
    by_cases h2 : bit = 2
    · subst h2; left
      have hv' : some (Val.str [52,52,52,52,53,53,53,53]) = some v := hv
      injection hv' with e; exact ⟨rfl, e.symm⟩
    · by_cases h4 : bit = 4
      · subst h4; right
        have hv' : some (Val.int 12) = some v := hv
        injection hv' with e; exact ⟨rfl, e.symm⟩
      · exfalso
        have e1 : (Key.mti == Key.de bit) = false := by simp
        have e2 : (Key.de 2 == Key.de bit) = false := by simp; omega
        have e3 : (Key.de 4 == Key.de bit) = false := by simp; omega
        simp [e1, e2, e3] at hv
  rcases hbit with ⟨rfl, rfl⟩ | ⟨rfl, rfl⟩
  · refine ⟨{ ftype := .llvar, length := 0, proc := .none, pytype := .str, dateFmt := [] },
      .str (transform { ftype := .llvar, length := 0, proc := .none, pytype := .str, dateFmt := [] } [52,52,52,52,53,53,53,53]),
      [], h2, ?_⟩
    rcases hc with rfl | rfl | rfl
    · exact WFField.text _ [52,52,52,52,53,53,53,53] [] (by decide) rfl (show Gen.latin_1.encode [52,52,52,52,53,53,53,53] = _ by decide +kernel) (by decide) (by intro h; cases h) (by intro; decide) rfl
    · exact WFField.text _ [244,244,244,244,245,245,245,245] [] (by decide) rfl (show Gen.cp500.encode [52,52,52,52,53,53,53,53] = _ by decide +kernel) (by decide) (by intro h; cases h) (by intro; decide) rfl
    · exact WFField.text _ [244,244,244,244,245,245,245,245] [] (by decide) rfl (show Gen.cp037.encode [52,52,52,52,53,53,53,53] = _ by decide +kernel) (by decide) (by intro h; cases h) (by intro; decide) rfl
  · exact ⟨_, _, _, h4, WFField.int 12 rfl rfl rfl (by decide) (by decide)⟩

/-- the hypotheses of `C01_roundtrip_packaged` are satisfiable: the sample message meets them -/
example (pd : Text → Option DateTime) :
    Dict.get sampleMsg .mti = some (.str (digitText [1,1,4,4])) ∧ pdsEntriesOf sampleMsg = [] ∧
    ElemsWF (envOf Gen.cp500 pd) Gen.bitConfig sampleMsg allBits :=
  ⟨rfl, rfl, sample_wf pd _ (Or.inr (Or.inl rfl)) _ rfl rfl⟩

/-! ### the packaged configuration satisfies the carrier hypotheses (re-checked on every run) -/

theorem packaged_carriers : pdsCarriers Gen.bitConfig = [48, 62, 123, 124, 125] := by decide

theorem packaged_carriers_ok : ∀ c ∈ pdsCarriers Gen.bitConfig, c ∈ allBits ∧
    ∃ f, Gen.bitConfig.get c = some f ∧ f.proc = .pds ∧ f.pytype = .str ∧ f.prefixLen = 3 := by
  rw [packaged_carriers]
  intro c hc
  simp only [List.mem_cons, List.mem_nil_iff, or_false] at hc
  rcases hc with rfl | rfl | rfl | rfl | rfl <;> exact ⟨by decide, _, rfl, rfl, rfl, rfl⟩

theorem packaged_carriers_nodup : (pdsCarriers Gen.bitConfig).Nodup := by
  rw [packaged_carriers]; decide

theorem packaged_all_carriers : ∀ b f, Gen.bitConfig.get b = some f → f.proc = .pds → b ∈ pdsCarriers Gen.bitConfig := by
  intro b f hget hproc
  unfold Config.get at hget
  cases hfind : Gen.bitConfig.find? (·.1 == b) with
  | none => simp [hfind] at hget
  | some e =>
    simp [hfind] at hget
    have hmem := List.mem_of_find?_eq_some hfind
    have hkey : e.1 = b := by simpa using List.find?_some hfind
    have hall : Gen.bitConfig.all (fun e => e.2.proc != .pds || (pdsCarriers Gen.bitConfig).contains e.1) = true := by
      decide
    have := List.all_eq_true.mp hall e hmem
    rw [hget, hproc, hkey] at this
    simpa using this

/-! ### date-times: the "parses back" hypothesis discharged -/

/-- A date-time element is well formed as soon as the date-time is EXPRESSIBLE in the configured format (every
    directive's value in range — two-digit years inside the 1969..2068 window, four-digit years 1000..9999 —, the fields
    the format does not mention at strptime's defaults, a real calendar date), its rendering has the element's width
    and is encodable: `strptime(format(d, fmt), fmt) = d` is a theorem about the model of Py/Time.lean
    (`strptime_strftime`, Lemmas/Time.lean), no longer a hypothesis. -/
theorem C01_date_wellformed {env : Env} (henv : EnvOK env) (bit : Nat) (f : FieldCfg) (d : DateTime) (bs : Bytes)
    (hproc : f.proc = .none) (hty : f.pytype = .datetime) (hfix : f.prefixLen = 0)
    (hexp : Expressible f.dateFmt d)
    (hlen : (strftime f.dateFmt d).length = f.length) (hne : strftime f.dateFmt d ≠ [])
    (henc : env.codec.encode (strftime f.dateFmt d) = some bs) :
    WFField env bit f (.dt d) (.dt d) [] :=
  WFField.date d bs hproc hty hfix hlen hne henc (strptime_strftime henv.sane f.dateFmt d hexp)

/-- the round trip of the rendering itself, for the measured character classes -/
theorem C01_date_text_roundtrip {env : Env} (henv : EnvOK env) (fmt : List Directive) (d : DateTime)
    (hexp : Expressible fmt d) : strptime env.classes fmt (strftime fmt d) = some d :=
  strptime_strftime henv.sane fmt d hexp

/-- the hypotheses are satisfiable: the packaged DE12 format and a leap day at the last second -/
example : Expressible [.y, .m, .d, .H, .M, .S] ⟨2024, 2, 29, 23, 59, 59⟩ :=
  ⟨by intro D hD; simp at hD; rcases hD with rfl | rfl | rfl | rfl | rfl | rfl <;> simp [DirOK],
   by simp [Pending], by decide⟩

/-- … a format without a year reads in 1900 -/
example : Expressible [.m, .d] ⟨1900, 12, 31, 0, 0, 0⟩ :=
  ⟨by intro D hD; simp at hD; rcases hD with rfl | rfl <;> simp [DirOK], by simp [Pending], by decide⟩

-- … and outside the two-digit-year window the round trip genuinely fails: 2069 reads back as 1969 (evaluated test)
#guard strptime asciiClasses [.y, .m, .d] (strftime [.y, .m, .d] ⟨2069, 1, 1, 0, 0, 0⟩) == some ⟨1969, 1, 1, 0, 0, 0⟩

-- sanity tests (evaluated): the documentation's example in both bitmap renderings, and DE4 = 0
#guard
  let env := envOf Gen.latin_1 (fun _ => none)
  let m : Dict := [(.mti, .str [49,49,52,52]), (.de 2, .str [52,52,52,52,53,53,53,53]), (.de 4, .int 0)]
  (encode env Gen.bitConfig false m).bind (decode env Gen.bitConfig false) ==
    .ok [(.mti, .str [49,49,52,52]), (.de 2, .str [52,52,52,52,53,53,53,53]), (.de 4, .int 0)]
#guard
  let env := envOf Gen.cp500 (fun _ => none)
  let m : Dict := [(.mti, .str [49,49,52,52]), (.de 2, .str [52,52,52,52,53,53,53,53])]
  (encode env Gen.bitConfig true m).bind (decode env Gen.bitConfig true) == .ok m

end Cardutil.Props.C01
