import Cardutil.Lemmas.IsoSafe
import Cardutil.Gen.Config
/-
  C07 — decoding never hangs or crashes: any bytes give a result or the library error.

  `Iso.decode env cfg hex msg` is the model of `loads`.  `env` carries the codec tables, the
  character classes of `int()`, the DE43 splitter and the date parser — the theorems hold for
  EVERY such environment (any codec, any behaviour of those functions), every byte string and both
  bitmap renderings.  `escape k` (any non-library exception) and `diverge` (a loop that does not
  terminate) are outcomes of the model; the theorems say they are unreachable.
-/
namespace Cardutil.Props.C07

open Cardutil Cardutil.Iso Cardutil.Vbs

/-- C07(a): message decoding returns a dictionary or raises the library's data error -/
theorem C07_loads (env : Env) (cfg : Config) (hcfg : ConfigOK cfg) (hexBitmap : Bool) (msg : Bytes) :
    (∃ d, decode env cfg hexBitmap msg = .ok d) ∨ decode env cfg hexBitmap msg = .dataError :=
  safe_cases (decode_safe env cfg hcfg hexBitmap msg)

/-- C07(b): the PDS walker terminates on every input (each step consumes at least 7 characters;
    a negative length is rejected instead of moving the pointer backwards) -/
theorem C07_pds_terminates (k : Py.IntClasses) (t : Text) : pdsToDict k t ≠ .diverge :=
  pdsToDict_terminates k t

/-- C07(c): the ICC TLV walker terminates on every input (each step consumes at least 2 bytes) -/
theorem C07_icc_terminates (b : Bytes) : iccToDict b ≠ .diverge :=
  iccToDict_terminates b

/-- C07(d): the typed conversion of an element — string, int / long, decimal or datetime — gives a
    value or the library error for EVERY text: `decimal.InvalidOperation` (which is not a ValueError)
    is caught like the ValueError of `int()` / `strptime` -/
theorem C07_typed_conversion (env : Env) (f : FieldCfg) (t : Text) :
    (∃ v, (stringToPyType env f t).catchAs isConvError = .ok v) ∨
      (stringToPyType env f t).catchAs isConvError = .dataError :=
  safe_cases (stringToPyType_safe env f t)

/-- the packaged configuration is acceptable (re-checked against /repo's config on every run):
    PDS / ICC / DE43 processors sit on string-typed elements -/
theorem packaged_config_ok : ConfigOK Gen.bitConfig :=
  configOK_of_all (by decide)

/-- C07(a) at the packaged configuration -/
theorem C07_loads_packaged (env : Env) (hexBitmap : Bool) (msg : Bytes) :
    (∃ d, decode env Gen.bitConfig hexBitmap msg = .ok d) ∨ decode env Gen.bitConfig hexBitmap msg = .dataError :=
  C07_loads env Gen.bitConfig packaged_config_ok hexBitmap msg

/-! ### readers -/

theorem payloads_length_le (P : Nat) (f : Bytes) : (Block.payloads P f).length ≤ f.length := by
  induction f using Block.payloads.induct (P := P) with
  | case1 f h => rw [Block.payloads]; simp [h]
  | case2 f h ih =>
    rw [Block.payloads]; simp only [h, if_false, List.length_append, List.length_take]
    simp only [List.length_drop] at ih
    omega

/-- an iteration ending the property allows: end of data, or the library's data error -/
def GoodEnd : End → Prop
  | .eof => True
  | .dataError _ _ => True
  | _ => False

theorem ipmReadAll_plain_good {α} (dec : Bytes → Outcome α) (hdec : ∀ r, Safe (dec r)) (ml fuel : Nat) (d : Bytes)
    (k : Nat) (l : Option Bytes) (hf : d.length < fuel) :
    GoodEnd (ipmReadAll plainSrc ml dec fuel ⟨d, k, l⟩).2 := by
  induction fuel generalizing d k l with
  | zero => omega
  | succ f ih =>
    rw [ipmReadAll_succ, next_plain]
    by_cases c1 : (d.take 4).length ≠ 4
    · rw [if_pos c1]; trivial
    · rw [if_neg c1]
      by_cases c2 : ml < be32dec (d.take 4)
      · rw [if_pos c2]; trivial
      · rw [if_neg c2]
        by_cases c3 : be32dec (d.take 4) = 0
        · rw [if_pos c3]; trivial
        · rw [if_neg c3]
          by_cases c4 : ((d.drop 4).take (be32dec (d.take 4))).length ≠ be32dec (d.take 4)
          · rw [if_pos c4]; trivial
          · rw [if_neg c4]
            rcases safe_cases (hdec ((d.drop 4).take (be32dec (d.take 4)))) with ⟨a, ha⟩ | ha
            · simp only [ha]
              apply ih
              simp only [List.length_take, List.length_drop] at c1 c4 ⊢
              omega
            · simp only [ha]; trivial

theorem readAll_plain_good (ml fuel : Nat) (d : Bytes) (k : Nat) (l : Option Bytes) (hf : d.length < fuel) :
    GoodEnd (readAll plainSrc ml fuel ⟨d, k, l⟩).2 := by
  induction fuel generalizing d k l with
  | zero => omega
  | succ f ih =>
    rw [readAll_succ, next_plain]
    by_cases c1 : (d.take 4).length ≠ 4
    · rw [if_pos c1]; trivial
    · rw [if_neg c1]
      by_cases c2 : ml < be32dec (d.take 4)
      · rw [if_pos c2]; trivial
      · rw [if_neg c2]
        by_cases c3 : be32dec (d.take 4) = 0
        · rw [if_pos c3]; trivial
        · rw [if_neg c3]
          by_cases c4 : ((d.drop 4).take (be32dec (d.take 4))).length ≠ be32dec (d.take 4)
          · rw [if_pos c4]; trivial
          · rw [if_neg c4]
            apply ih
            simp only [List.length_take, List.length_drop] at c1 c4 ⊢
            omega

/-- C07(d): for every file content, iterating a VBS reader (blocked or not) yields records and
    then ends or raises the library's data error — never another exception, never a hang -/
theorem C07_vbs_reader (maxLen : Nat) (blocked : Bool) (file : Bytes) :
    GoodEnd (vbsBytesToList 1012 maxLen blocked file).2 := by
  unfold vbsBytesToList
  cases blocked
  · simp only [Bool.false_eq_true, if_false, init]
    exact readAll_plain_good maxLen _ file 1 none (by omega)
  · simp only [if_true, init]
    rw [readAll_unblock]
    apply readAll_plain_good
    have := payloads_length_le 1012 file
    simp only [Unblock.remaining, List.nil_append]; omega

/-- `list(IpmReader(file, …))` -/
def ipmRead (env : Env) (cfg : Config) (maxLen : Nat) (blocked : Bool) (file : Bytes) : List Dict × End :=
  if blocked then ipmReadAll (unblockSrc 1012) maxLen (decode env cfg false) (file.length + 1) (init ⟨file, []⟩)
  else ipmReadAll plainSrc maxLen (decode env cfg false) (file.length + 1) (init file)

/-- C07(e): the same for the IPM reader, for every file content, codec and acceptable configuration -/
theorem C07_ipm_reader (env : Env) (cfg : Config) (hcfg : ConfigOK cfg) (maxLen : Nat) (blocked : Bool) (file : Bytes) :
    GoodEnd (ipmRead env cfg maxLen blocked file).2 := by
  unfold ipmRead
  cases blocked
  · simp only [Bool.false_eq_true, if_false, init]
    exact ipmReadAll_plain_good _ (fun r => decode_safe env cfg hcfg false r) maxLen _ file 1 none (by omega)
  · simp only [if_true, init]
    rw [ipmReadAll_unblock]
    apply ipmReadAll_plain_good _ (fun r => decode_safe env cfg hcfg false r)
    have := payloads_length_le 1012 file
    simp only [Unblock.remaining, List.nil_append]; omega

/-! ### the command-line wrappers catch the library error only -/

inductive CliResult | done | diagnostic | traceback | hang
  deriving DecidableEq, Repr

/-- `cli_run` of mci_ipm_to_csv / mideu: `try: … except MciIpmDataError: print details; return -1` -/
def cliRun : End → CliResult
  | .eof => .done
  | .dataError _ _ => .diagnostic
  | .escape _ => .traceback
  | .diverge => .hang
  | .fuel => .hang

/-- C07(f): whatever the file, the tools stop with their normal result or a diagnostic -/
theorem C07_cli (env : Env) (cfg : Config) (hcfg : ConfigOK cfg) (maxLen : Nat) (blocked : Bool) (file : Bytes) :
    cliRun (ipmRead env cfg maxLen blocked file).2 = .done ∨
    cliRun (ipmRead env cfg maxLen blocked file).2 = .diagnostic := by
  have h := C07_ipm_reader env cfg hcfg maxLen blocked file
  cases he : (ipmRead env cfg maxLen blocked file).2 <;> simp [he, GoodEnd, cliRun] at h ⊢

/-- non-vacuity: the hypothesis on configurations is satisfiable (the packaged one), and the two
    defect witnesses of the unfixed code now evaluate to the library error in the model -/
example : ConfigOK Gen.bitConfig := packaged_config_ok
#guard pdsToDict Py.asciiClasses [48,48,48,49,45,48,55] == .escape .valueError   -- "0001-07": rejected, not a hang
#guard (iccToDict [0x9a]).catchAs isValueOrStructError == .dataError

end Cardutil.Props.C07
