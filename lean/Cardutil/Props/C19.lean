import Cardutil.Model.Cli
import Cardutil.Props.C06
import Cardutil.Props.C01
import Cardutil.Lemmas.IsoReencode
/-
  C19 — encoding/format conversion tools preserve every record and are reversible.

  `Cli.convertParam` models `mci_ipm_param_encode` / `paramconv` (record-wise
  `decode(A).encode(B)`), `Cli.convertIpm` models `mci_ipm_encode` / `mideu convert` (reader in
  encoding A piped into a writer in encoding B; PDS expansion disabled on read).
-/
namespace Cardutil.Props.C19

open Cardutil Cardutil.Iso Cardutil.Py Cardutil.Vbs Cardutil.Cli

/-- re-coding one record -/
def recode (a b : Codec) (r : Bytes) : Option Bytes := (a.decode r).bind b.encode

/-- a codec whose decoding is inverted by its encoding (with `Lawful`: a bijection between the
    bytes it decodes and the characters it encodes) -/
def Codec.Inverse (c : Codec) : Prop := ∀ x ch, c.dec x = some ch → c.enc ch = some x

theorem encode_decode {c : Codec} (h : Codec.Inverse c) {r : Bytes} {t : Text} (hd : c.decode r = some t) :
    c.encode t = some r := by
  unfold Codec.decode at hd; unfold Codec.encode
  induction r generalizing t with
  | nil => simp at hd; subst hd; rfl
  | cons x xs ih =>
    rw [List.mapM_cons] at hd
    cases hx : c.dec x with
    | none => simp [hx] at hd
    | some ch =>
      cases hxs : List.mapM c.dec xs with
      | none => simp [hx, hxs] at hd
      | some ts =>
        simp [hx, hxs] at hd
        subst hd
        rw [List.mapM_cons, h x ch hx, ih hxs]
        rfl

/-- C19 (parameter files, one record): converting A→B and back B→A reproduces the record, for
    codecs that are mutually inverse tables (latin_1, cp500, cp037 — checked below on the generated
    tables) -/
theorem C19_record_reversible (a b : Codec) (ha : Codec.Inverse a) (hb : b.Lawful) (r r' : Bytes)
    (h : recode a b r = some r') : recode b a r' = some r := by
  unfold recode at h ⊢
  cases hd : a.decode r with
  | none => simp [hd] at h
  | some t =>
    simp only [hd, Option.bind_some] at h
    rw [Codec.decode_encode hb h]
    simp only [Option.bind_some]
    exact encode_decode ha hd

/-- the tool's per-record function is `recode` -/
theorem recodeRecord_ok (a b : Codec) (r r' : Bytes) : recodeRecord a b r = .ok r' ↔ recode a b r = some r' := by
  unfold recodeRecord recode
  cases a.decode r with
  | none => simp
  | some t =>
    simp only [Option.bind_some]
    cases h : b.encode t <;> simp

/-- table form of `Inverse` for a generated codec -/
def inverseTables (c : Codec) : Bool :=
  (List.range 256).all (fun x => match c.dec x with | some ch => c.enc ch == some x | none => true)

/-- the three production codecs decode every byte and are inverse tables -/
theorem latin1_total : (List.range 256).all (fun x => (Gen.latin_1.dec x).isSome) = true := by decide +kernel
theorem cp500_total : (List.range 256).all (fun x => (Gen.cp500.dec x).isSome) = true := by decide +kernel
theorem cp037_total : (List.range 256).all (fun x => (Gen.cp037.dec x).isSome) = true := by decide +kernel
theorem latin1_inverse_tbl : inverseTables Gen.latin_1 = true := by decide +kernel
theorem cp500_inverse_tbl : inverseTables Gen.cp500 = true := by decide +kernel
theorem cp037_inverse_tbl : inverseTables Gen.cp037 = true := by decide +kernel

/-- C19 (parameter files, whole file): the output of the tool on a writer-produced file is the
    writer's file of the re-coded records — same count, same order — for any input/output format -/
theorem C19_param_file (a b : Codec) (maxLen : Nat) (hmax : maxLen < 4294967296) (inB outB : Bool)
    (recs out : List Bytes)
    (hrecs : ∀ r ∈ recs, 0 < r.length ∧ r.length ≤ maxLen)
    (hout : Outcome.mapO (recodeRecord a b) recs = .ok out) :
    convertParam 1012 maxLen a b inB outB (Writer.listToBytes 1012 inB recs) =
      (.ok (Writer.listToBytes 1012 outB out), .eof) := by
  unfold convertParam
  have hread : vbsBytesToList 1012 maxLen inB (Writer.listToBytes 1012 inB recs) = (recs, .eof) := by
    cases inB
    · exact C03.C03_roundtrip_unblocked maxLen hmax recs hrecs
    · exact C03.C03_roundtrip_blocked maxLen hmax recs hrecs
  simp only [hread, hout, Outcome.bind]

/-- C19 (IPM files): the tool's output is the writer's file of the re-encoded messages, in order;
    `msgs` are the dictionaries the reader (encoding A, PDS-less configuration) yields -/
theorem C19_ipm_file (envA envB : Env) (cfgRead cfgWrite : Config) (maxLen : Nat) (inB outB : Bool)
    (file : Bytes) (msgs : List Dict) (out : List Bytes)
    (hread : readerOf inB 1012 maxLen (decode envA cfgRead false) file = (msgs, .eof))
    (hout : Outcome.mapO (encode envB cfgWrite false) msgs = .ok out) :
    (convertIpm 1012 maxLen envA envB cfgRead cfgWrite inB outB file).1 = .ok (Writer.listToBytes 1012 outB out) ∧
    out.length = msgs.length := by
  unfold convertIpm
  simp only [hread, hout, Outcome.bind]
  refine ⟨trivial, ?_⟩
  clear hread
  induction msgs generalizing out with
  | nil => simp [Outcome.mapO] at hout; subst hout; rfl
  | cons m ms ih =>
    simp only [Outcome.mapO] at hout
    cases h1 : encode envB cfgWrite false m with
    | ok b =>
      cases h2 : Outcome.mapO (encode envB cfgWrite false) ms with
      | ok bs =>
        simp [h1, h2, Outcome.bind] at hout
        subst hout
        simp [ih bs h2]
      | dataError => simp [h1, h2, Outcome.bind] at hout
      | escape k => simp [h1, h2, Outcome.bind] at hout
      | diverge => simp [h1, h2, Outcome.bind] at hout
    | dataError => simp [h1, Outcome.bind] at hout
    | escape k => simp [h1, Outcome.bind] at hout
    | diverge => simp [h1, Outcome.bind] at hout

/-- … and reading that output under B returns exactly the re-encoded messages' decodings: with the
    per-message round trip of C01 (`decode_B (encode_B d) = ok d'`) the records of the output decoded
    under B are the input's records decoded under A, in the same order (C06 applied to the output) -/
theorem C19_ipm_reads_back (envB : Env) (cfgWrite : Config) (maxLen : Nat) (hmax : maxLen < 4294967296) (outB : Bool)
    (msgs : List Dict) (expected : Dict → Dict) (recOf : Dict → Bytes)
    (henc : ∀ m ∈ msgs, encode envB cfgWrite false m = .ok (recOf m) ∧ 0 < (recOf m).length ∧ (recOf m).length ≤ maxLen)
    (hdec : ∀ m ∈ msgs, decode envB cfgWrite false (recOf m) = .ok (expected m)) :
    ∃ file, C06.ipmWrite (encode envB cfgWrite false) outB msgs = .ok file ∧
      C06.ipmRead (decode envB cfgWrite false) maxLen outB file = (msgs.map expected, .eof) :=
  C06.C06_file_roundtrip _ _ expected recOf maxLen hmax outB msgs henc hdec

/-- the read configuration of both IPM tools leaves the PDS carriers alone -/
theorem C19_noPds (cfg : Config) : ∀ e ∈ noPds cfg, e.2.proc ≠ .pds := by
  intro e he
  unfold noPds at he
  obtain ⟨x, _, rfl⟩ := List.mem_map.mp he
  simp only
  split
  · simp
  · rename_i h; simpa using h

/-- C19 (the step behind byte-for-byte reversibility of the IPM tools): for a configuration
    without PAN masking, decoding a record the library wrote and encoding the result again gives
    the SAME BYTES — the decoder's typed values (numbers, date-times), masked nothing, and derived
    entries (TAGxxxx, ICC_DATA, DE43_*) do not change what the encoder emits -/
theorem C19_reencode_identity {env : Env} (henv : EnvOK env) (cfg : Config) (hexBitmap : Bool) (m : Dict)
    (hnopan : ∀ bit f, cfg.get bit = some f → f.proc ≠ .pan ∧ f.proc ≠ .panPrefix)
    (ds : List Nat) (hds : ∀ d ∈ ds, d < 10) (hl : ds.length = 4)
    (hmti : Dict.get m .mti = some (.str (digitText ds)))
    (hnopds : pdsEntriesOf m = [])
    (hwf : ElemsWF env cfg m allBits) :
    ∃ bs d, encode env cfg hexBitmap m = .ok bs ∧ decode env cfg hexBitmap bs = .ok d ∧
      encodeCore env cfg hexBitmap d = .ok bs := by
  obtain ⟨bs, d, h1, h2, h3, h4, h5⟩ := C01.C01_roundtrip henv cfg hexBitmap m ds hds hl hmti hnopds hwf
  refine ⟨bs, d, h1, h2, ?_⟩
  rw [C01.encode_no_pds _ _ _ _ hnopds] at h1
  rw [← h1]
  apply encodeCore_congr
  · rw [h3, hmti]
  · intro bit hb
    cases hm : Dict.get m (.de bit) with
    | some v =>
      by_cases hp : present v = true
      · obtain ⟨f, exp, sub, hcfg, hw, hget⟩ := h4 bit hb v hm hp
        have := wf_exp_eq hw (hnopan bit f hcfg)
        subst this
        rw [hget]
      · have hp' : present v = false := by simpa using hp
        simp only [hp', Bool.false_eq_true, if_false]
        cases hd : Dict.get d (.de bit) with
        | none => rfl
        | some x =>
          exfalso
          rcases h5 _ (mem_of_get hd) with h6 | ⟨bit', v', hk, hv', hp''⟩ | h6
          · simp at h6
          · simp only at hk
            injection hk with e
            subst e
            rw [hm] at hv'
            injection hv' with e2
            subst e2
            rw [hp'] at hp''
            simp at hp''
          · simp [Key.isDerived] at h6
    | none =>
      simp only
      cases hd : Dict.get d (.de bit) with
      | none => rfl
      | some x =>
        exfalso
        rcases h5 _ (mem_of_get hd) with h6 | ⟨bit', v', hk, hv', _⟩ | h6
        · simp at h6
        · simp only at hk
          injection hk with e
          subst e
          rw [hm] at hv'
          simp at hv'
        · simp [Key.isDerived] at h6

/-- the packaged configuration has no PAN masking (re-checked against /repo on every run) -/
theorem packaged_no_pan : ∀ bit f, Gen.bitConfig.get bit = some f → f.proc ≠ .pan ∧ f.proc ≠ .panPrefix := by
  intro bit f hget
  obtain ⟨e, he, rfl⟩ := config_get_mem hget
  have hall : Gen.bitConfig.all (fun e => e.2.proc != .pan && e.2.proc != .panPrefix) = true := by decide
  have := List.all_eq_true.mp hall e he
  simpa using this

-- sanity test (evaluated): latin_1 -> cp500 -> latin_1 on a record of all 256 byte values
#guard ((recode Gen.latin_1 Gen.cp500 (List.range 256)).bind (recode Gen.cp500 Gen.latin_1)) == some (List.range 256)

end Cardutil.Props.C19
