import Cardutil.Model.Cli
import Cardutil.Props.C06
import Cardutil.Props.C01
import Cardutil.Lemmas.IsoReencode
/-
  C19 — encoding/format conversion tools preserve every record and are reversible.

  `Cli.convertParam` models `mci_ipm_param_encode` / `paramconv` (record-wise
  `decode(A).encode(B)`), `Cli.convertIpm` models `mci_ipm_encode` / `mideu convert` (reader in
  encoding A piped into a writer in encoding B; PDS expansion disabled on read).
-/
namespace Cardutil.Props.C19

open Cardutil Cardutil.Iso Cardutil.Py Cardutil.Vbs Cardutil.Cli

/-- re-coding one record -/
def recode (a b : Codec) (r : Bytes) : Option Bytes := (a.decode r).bind b.encode

/-- a codec whose decoding is inverted by its encoding (with `Lawful`: a bijection between the
    bytes it decodes and the characters it encodes) -/
def Codec.Inverse (c : Codec) : Prop := ∀ x ch, c.dec x = some ch → c.enc ch = some x

theorem encode_decode {c : Codec} (h : Codec.Inverse c) {r : Bytes} {t : Text} (hd : c.decode r = some t) :
    c.encode t = some r := by
  unfold Codec.decode at hd; unfold Codec.encode
  induction r generalizing t with
  | nil => simp at hd; subst hd; rfl
  | cons x xs ih =>
    rw [List.mapM_cons] at hd
    cases hx : c.dec x with
    | none => simp [hx] at hd
    | some ch =>
      cases hxs : List.mapM c.dec xs with
      | none => simp [hx, hxs] at hd
      | some ts =>
        simp [hx, hxs] at hd
        subst hd
        rw [List.mapM_cons, h x ch hx, ih hxs]
        rfl

/-- C19 (parameter files, one record): converting A→B and back B→A reproduces the record, for
    codecs that are mutually inverse tables (latin_1, cp500, cp037 — checked below on the generated
    tables) -/
theorem C19_record_reversible (a b : Codec) (ha : Codec.Inverse a) (hb : b.Lawful) (r r' : Bytes)
    (h : recode a b r = some r') : recode b a r' = some r := by
  unfold recode at h ⊢
  cases hd : a.decode r with
  | none => simp [hd] at h
  | some t =>
    simp only [hd, Option.bind_some] at h
    rw [Codec.decode_encode hb h]
    simp only [Option.bind_some]
    exact encode_decode ha hd

/-- the tool's per-record function is `recode` -/
theorem recodeRecord_ok (a b : Codec) (r r' : Bytes) : recodeRecord a b r = .ok r' ↔ recode a b r = some r' := by
  unfold recodeRecord recode
  cases a.decode r with
  | none => simp
  | some t =>
    simp only [Option.bind_some]
    cases h : b.encode t <;> simp

/-- table form of `Inverse` for a generated codec -/
def inverseTables (c : Codec) : Bool :=
  (List.range 256).all (fun x => match c.dec x with | some ch => c.enc ch == some x | none => true)

/-- the three production codecs decode every byte and are inverse tables -/
theorem latin1_total : (List.range 256).all (fun x => (Gen.latin_1.dec x).isSome) = true := by decide +kernel
theorem cp500_total : (List.range 256).all (fun x => (Gen.cp500.dec x).isSome) = true := by decide +kernel
theorem cp037_total : (List.range 256).all (fun x => (Gen.cp037.dec x).isSome) = true := by decide +kernel
theorem latin1_inverse_tbl : inverseTables Gen.latin_1 = true := by decide +kernel
theorem cp500_inverse_tbl : inverseTables Gen.cp500 = true := by decide +kernel
theorem cp037_inverse_tbl : inverseTables Gen.cp037 = true := by decide +kernel

/-- C19 (parameter files, whole file): the output of the tool on a writer-produced file is the
    writer's file of the re-coded records — same count, same order — for any input/output format -/
theorem C19_param_file (a b : Codec) (maxLen : Nat) (hmax : maxLen < 4294967296) (inB outB : Bool)
    (recs out : List Bytes)
    (hrecs : ∀ r ∈ recs, 0 < r.length ∧ r.length ≤ maxLen)
    (hout : Outcome.mapO (recodeRecord a b) recs = .ok out) :
    convertParam 1012 maxLen a b inB outB (Writer.listToBytes 1012 inB recs) =
      (.ok (Writer.listToBytes 1012 outB out), .eof) := by
  unfold convertParam
  have hread : vbsBytesToList 1012 maxLen inB (Writer.listToBytes 1012 inB recs) = (recs, .eof) := by
    cases inB
    · exact C03.C03_roundtrip_unblocked maxLen hmax recs hrecs
    · exact C03.C03_roundtrip_blocked maxLen hmax recs hrecs
  simp only [hread, hout, Outcome.bind]

/-- C19 (IPM files): the tool's output is the writer's file of the re-encoded messages, in order;
    `msgs` are the dictionaries the reader (encoding A, PDS-less configuration) yields -/
theorem C19_ipm_file (envA envB : Env) (cfgRead cfgWrite : Config) (maxLen : Nat) (inB outB : Bool)
    (file : Bytes) (msgs : List Dict) (out : List Bytes)
    (hread : readerOf inB 1012 maxLen (decode envA cfgRead false) file = (msgs, .eof))
    (hout : Outcome.mapO (encode envB cfgWrite false) msgs = .ok out) :
    (convertIpm 1012 maxLen envA envB cfgRead cfgWrite inB outB file).1 = .ok (Writer.listToBytes 1012 outB out) ∧
    out.length = msgs.length := by
  unfold convertIpm
  simp only [hread, hout, Outcome.bind]
  refine ⟨trivial, ?_⟩
  clear hread
  induction msgs generalizing out with
  | nil => simp [Outcome.mapO] at hout; subst hout; rfl
  | cons m ms ih =>
    simp only [Outcome.mapO] at hout
    cases h1 : encode envB cfgWrite false m with
    | ok b =>
      cases h2 : Outcome.mapO (encode envB cfgWrite false) ms with
      | ok bs =>
        simp [h1, h2, Outcome.bind] at hout
        subst hout
        simp [ih bs h2]
      | dataError => simp [h1, h2, Outcome.bind] at hout
      | escape k => simp [h1, h2, Outcome.bind] at hout
      | diverge => simp [h1, h2, Outcome.bind] at hout
    | dataError => simp [h1, Outcome.bind] at hout
    | escape k => simp [h1, Outcome.bind] at hout
    | diverge => simp [h1, Outcome.bind] at hout

/-- … and reading that output under B returns exactly the re-encoded messages' decodings: with the
    per-message round trip of C01 (`decode_B (encode_B d) = ok d'`) the records of the output decoded
    under B are the input's records decoded under A, in the same order (C06 applied to the output) -/
theorem C19_ipm_reads_back (envB : Env) (cfgWrite : Config) (maxLen : Nat) (hmax : maxLen < 4294967296) (outB : Bool)
    (msgs : List Dict) (expected : Dict → Dict) (recOf : Dict → Bytes)
    (henc : ∀ m ∈ msgs, encode envB cfgWrite false m = .ok (recOf m) ∧ 0 < (recOf m).length ∧ (recOf m).length ≤ maxLen)
    (hdec : ∀ m ∈ msgs, decode envB cfgWrite false (recOf m) = .ok (expected m)) :
    ∃ file, C06.ipmWrite (encode envB cfgWrite false) outB msgs = .ok file ∧
      C06.ipmRead (decode envB cfgWrite false) maxLen outB file = (msgs.map expected, .eof) :=
  C06.C06_file_roundtrip _ _ expected recOf maxLen hmax outB msgs henc hdec

/-- the read configuration of both IPM tools leaves the PDS carriers alone -/
theorem C19_noPds (cfg : Config) : ∀ e ∈ noPds cfg, e.2.proc ≠ .pds := by
  intro e he
  unfold noPds at he
  obtain ⟨x, _, rfl⟩ := List.mem_map.mp he
  simp only
  split
  · simp
  · rename_i h; simpa using h

theorem C19_noPds_get (cfg : Config) : ∀ bit f, (noPds cfg).get bit = some f → f.proc ≠ .pds := by
  intro bit f hget
  obtain ⟨e, he, rfl⟩ := config_get_mem hget
  exact C19_noPds cfg e he

/-- C19 (the step behind byte-for-byte reversibility of the IPM tools): for a configuration
    without PAN masking, decoding a record the library wrote and encoding the result again gives
    the SAME BYTES — the decoder's typed values (numbers, date-times), masked nothing, and derived
    entries (TAGxxxx, ICC_DATA, DE43_*) do not change what the encoder emits -/
theorem C19_reencode_identity {env : Env} (henv : EnvOK env) (cfg : Config) (hexBitmap : Bool) (m : Dict)
    (hnopan : ∀ bit f, cfg.get bit = some f → f.proc ≠ .pan ∧ f.proc ≠ .panPrefix)
    (ds : List Nat) (hds : ∀ d ∈ ds, d < 10) (hl : ds.length = 4)
    (hmti : Dict.get m .mti = some (.str (digitText ds)))
    (hnopds : pdsEntriesOf m = [])
    (hwf : ElemsWF env cfg m allBits) :
    ∃ bs d, encode env cfg hexBitmap m = .ok bs ∧ decode env cfg hexBitmap bs = .ok d ∧
      encodeCore env cfg hexBitmap d = .ok bs := by
  obtain ⟨bs, d, h1, h2, h3, h4, h5⟩ := C01.C01_roundtrip henv cfg hexBitmap m ds hds hl hmti hnopds hwf
  refine ⟨bs, d, h1, h2, ?_⟩
  rw [C01.encode_no_pds _ _ _ _ hnopds] at h1
  rw [← h1]
  apply encodeCore_congr
  · rw [h3, hmti]
  · apply sameEnc_of_elements env cfg m d _ h5
    intro bit hb v hm hp
    obtain ⟨f, exp, sub, hcfg, hw, hget⟩ := h4 bit hb v hm hp
    obtain ⟨hre, hpe⟩ := wf_reencode hw (hnopan bit f hcfg)
    exact ⟨f, exp, hcfg, hget, hpe, hre⟩

/-- C19 (message level, there and back): a message that is well formed under encodings A and B
    (same character classes and date parser; no PAN masking; no PDS keys) goes
      bytes_A  --decode A-->  d_A  --encode B-->  bytes_B  --decode B-->  d_B  --encode A-->  bytes_A
    and arrives at the SAME BYTES it started from: converting a record to the other encoding and
    back is the identity on the record, typed values and derived entries notwithstanding -/
theorem C19_there_and_back {envA envB : Env} (hA : EnvOK envA) (hB : EnvOK envB)
    (hcl : envA.classes = envB.classes) (hpd : envA.parseDate = envB.parseDate)
    (cfg : Config) (m : Dict)
    (hnopan : ∀ bit f, cfg.get bit = some f → f.proc ≠ .pan ∧ f.proc ≠ .panPrefix)
    (ds : List Nat) (hds : ∀ d ∈ ds, d < 10) (hl : ds.length = 4)
    (hmti : Dict.get m .mti = some (.str (digitText ds)))
    (hnopds : pdsEntriesOf m = [])
    (hwfA : ElemsWF envA cfg m allBits) (hwfB : ElemsWF envB cfg m allBits) :
    ∃ a dA b dB, encode envA cfg false m = .ok a ∧ decode envA cfg false a = .ok dA ∧
      encodeCore envB cfg false dA = .ok b ∧ decode envB cfg false b = .ok dB ∧
      encodeCore envA cfg false dB = .ok a ∧ encode envB cfg false m = .ok b := by
  obtain ⟨a, dA, a1, a2, a3, a4, a5⟩ := C01.C01_roundtrip hA cfg false m ds hds hl hmti hnopds hwfA
  obtain ⟨b, dB, b1, b2, b3, b4, b5⟩ := C01.C01_roundtrip hB cfg false m ds hds hl hmti hnopds hwfB
  refine ⟨a, dA, b, dB, a1, a2, ?_, b2, ?_, b1⟩
  · -- d_A encodes under B like m does
    rw [C01.encode_no_pds _ _ _ _ hnopds] at b1
    rw [← b1]
    apply encodeCore_congr
    · rw [a3, hmti]
    · apply sameEnc_of_elements envB cfg m dA _ a5
      intro bit hb v hm hp
      obtain ⟨f, expA, subA, hcfg, hwA, hgetA⟩ := a4 bit hb v hm hp
      obtain ⟨f', expB, subB, hcfg', hwB, _⟩ := b4 bit hb v hm hp
      rw [hcfg] at hcfg'
      injection hcfg' with e
      subst e
      obtain ⟨hre, hpe⟩ := wf_reencode hwB (hnopan bit f hcfg)
      have hexp := wf_exp_det hcl hpd hwA hwB
      subst hexp
      exact ⟨f, expA, hcfg, hgetA, hpe, hre⟩
  · -- d_B encodes under A like m does
    rw [C01.encode_no_pds _ _ _ _ hnopds] at a1
    rw [← a1]
    apply encodeCore_congr
    · rw [b3, hmti]
    · apply sameEnc_of_elements envA cfg m dB _ b5
      intro bit hb v hm hp
      obtain ⟨f, expA, subA, hcfg, hwA, _⟩ := a4 bit hb v hm hp
      obtain ⟨f', expB, subB, hcfg', hwB, hgetB⟩ := b4 bit hb v hm hp
      rw [hcfg] at hcfg'
      injection hcfg' with e
      subst e
      obtain ⟨hre, hpe⟩ := wf_reencode hwA (hnopan bit f hcfg)
      have hexp := wf_exp_det hcl hpd hwA hwB
      subst hexp
      exact ⟨f, expA, hcfg, hgetB, hpe, hre⟩

/-- C19 (the tools' own calls): when the configuration leaves the PDS carriers alone — the read
    configuration of `mci_ipm_encode` and `mideu convert` (`C19_noPds`) — the decoded dictionaries
    hold no PDS key, so the tool's `encode` (with PDS packing) is the plain encoder and the journey
    A → B → A through `loads` / `dumps` returns the record byte for byte -/
theorem C19_there_and_back_tools {envA envB : Env} (hA : EnvOK envA) (hB : EnvOK envB)
    (hcl : envA.classes = envB.classes) (hpd : envA.parseDate = envB.parseDate)
    (cfg : Config) (m : Dict)
    (hnopan : ∀ bit f, cfg.get bit = some f → f.proc ≠ .pan ∧ f.proc ≠ .panPrefix)
    (hnp : ∀ bit f, cfg.get bit = some f → f.proc ≠ .pds)
    (ds : List Nat) (hds : ∀ d ∈ ds, d < 10) (hl : ds.length = 4)
    (hmti : Dict.get m .mti = some (.str (digitText ds)))
    (hnopds : pdsEntriesOf m = [])
    (hwfA : ElemsWF envA cfg m allBits) (hwfB : ElemsWF envB cfg m allBits) :
    ∃ a dA b dB, encode envA cfg false m = .ok a ∧ decode envA cfg false a = .ok dA ∧
      encode envB cfg false dA = .ok b ∧ decode envB cfg false b = .ok dB ∧
      encode envA cfg false dB = .ok a := by
  obtain ⟨a, dA, b, dB, h1, h2, h3, h4, h5, h6⟩ :=
    C19_there_and_back hA hB hcl hpd cfg m hnopan ds hds hl hmti hnopds hwfA hwfB
  have h1' := h1
  rw [C01.encode_no_pds _ _ _ _ hnopds] at h1'
  have h6' := h6
  rw [C01.encode_no_pds _ _ _ _ hnopds] at h6'
  have hdA : pdsEntriesOf dA = [] :=
    C01.C01_decoded_no_pds hA cfg false m hnp ds hds hl hmti hwfA a dA h1' h2
  have hdB : pdsEntriesOf dB = [] :=
    C01.C01_decoded_no_pds hB cfg false m hnp ds hds hl hmti hwfB b dB h6' h4
  refine ⟨a, dA, b, dB, h1, h2, ?_, h4, ?_⟩
  · rw [C01.encode_no_pds _ _ _ _ hdA]; exact h3
  · rw [C01.encode_no_pds _ _ _ _ hdB]; exact h5

/-- the packaged configuration has no PAN masking (re-checked against /repo on every run) -/
theorem packaged_no_pan : ∀ bit f, Gen.bitConfig.get bit = some f → f.proc ≠ .pan ∧ f.proc ≠ .panPrefix := by
  intro bit f hget
  obtain ⟨e, he, rfl⟩ := config_get_mem hget
  have hall : Gen.bitConfig.all (fun e => e.2.proc != .pan && e.2.proc != .panPrefix) = true := by decide
  have := List.all_eq_true.mp hall e he
  simpa using this

/-- non-vacuity of `C19_there_and_back_tools`: the packaged configuration as the tools read it
    (`noPds`), encodings latin_1 and cp500, the sample message of C01 -/
example (pd : Text → Option DateTime) :
    ∃ a dA b dB, encode (C01.envOf Gen.latin_1 pd) (noPds Gen.bitConfig) false C01.sampleMsg = .ok a ∧
      decode (C01.envOf Gen.latin_1 pd) (noPds Gen.bitConfig) false a = .ok dA ∧
      encode (C01.envOf Gen.cp500 pd) (noPds Gen.bitConfig) false dA = .ok b ∧
      decode (C01.envOf Gen.cp500 pd) (noPds Gen.bitConfig) false b = .ok dB ∧
      encode (C01.envOf Gen.latin_1 pd) (noPds Gen.bitConfig) false dB = .ok a := by
  apply C19_there_and_back_tools (C01.envOK_latin1 pd) (C01.envOK_cp500 pd) (by simp only [C01.envOf]) (by simp only [C01.envOf]) (noPds Gen.bitConfig) C01.sampleMsg
    _ (C19_noPds_get Gen.bitConfig) [1,1,4,4] (by decide) rfl rfl rfl
    (C01.sample_wf pd _ (Or.inl rfl) _ (by decide +kernel) (by decide +kernel))
    (C01.sample_wf pd _ (Or.inr (Or.inl rfl)) _ (by decide +kernel) (by decide +kernel))
  intro bit f hget
  obtain ⟨e, he, rfl⟩ := config_get_mem hget
  have hall : (noPds Gen.bitConfig).all (fun e => e.2.proc != .pan && e.2.proc != .panPrefix) = true := by decide
  have := List.all_eq_true.mp hall e he
  simpa using this

-- sanity test (evaluated): latin_1 -> cp500 -> latin_1 on a record of all 256 byte values
#guard ((recode Gen.latin_1 Gen.cp500 (List.range 256)).bind (recode Gen.cp500 Gen.latin_1)) == some (List.range 256)

end Cardutil.Props.C19
