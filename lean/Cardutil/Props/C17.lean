import Cardutil.Model.Info
import Cardutil.Props.C04
import Cardutil.Props.C03
import Cardutil.Gen.Config
import Cardutil.Gen.PyTables
import Cardutil.Gen.Limits
import Cardutil.Props.C02
/-
  C17 — file inspection recognises writer output: validity, encoding family, blocking.

  `Info.ipmInfoP S P …` models `ipm_info` with the sample size `S` (2500) and payload size `P`
  (1012) as parameters; the lemmas are generic in `P` and in `S ≥ 2·(P+2)`, the property theorems
  instantiate the code's constants.  Files have any number of blocks.
-/
namespace Cardutil.Props.C17

open Cardutil Cardutil.Block Cardutil.Info

theorem take2_PP : PP.take 2 = PP := rfl

/-- a blocked file of one or more blocks is recognised from its first sample, however many
    blocks follow (the defect was: only files of exactly one or two blocks were) -/
theorem blockCheck_blocks {P S : Nat} (hS : 2 * (P + 2) ≤ S) (bs : List Bytes) (hb : Blocks P bs) (hne : bs ≠ []) :
    blockCheck P (bs.flatten.take S) = true := by
  cases bs with
  | nil => exact absurd rfl hne
  | cons b1 rest =>
    obtain ⟨hl1, ht1⟩ := hb b1 (by simp)
    cases rest with
    | nil =>
      have hs : ([b1] : List Bytes).flatten.take S = b1 := by
        simp only [List.flatten_cons, List.flatten_nil, List.append_nil]
        exact List.take_of_length_le (by omega)
      rw [hs]
      unfold blockCheck
      rw [if_neg (by omega), ht1, take2_PP]
      simp [hl1]
    | cons b2 rest2 =>
      obtain ⟨hl2, ht2⟩ := hb b2 (by simp)
      have hs : (b1 :: b2 :: rest2).flatten.take S = b1 ++ (b2 ++ rest2.flatten.take (S - (P + 2) - (P + 2))) := by
        simp only [List.flatten_cons]
        rw [List.take_append, List.take_of_length_le (by omega), hl1,
          List.take_append, List.take_of_length_le (by omega), hl2]
      rw [hs]
      unfold blockCheck
      have hlen : ¬ (b1 ++ (b2 ++ rest2.flatten.take (S - (P + 2) - (P + 2)))).length < P + 2 := by
        simp only [List.length_append, hl1]; omega
      have hd1 : ((b1 ++ (b2 ++ rest2.flatten.take (S - (P + 2) - (P + 2)))).drop P).take 2 = PP := by
        rw [List.drop_append_of_le_length (by omega), ht1]
        rfl
      have hne1 : (b1 ++ (b2 ++ rest2.flatten.take (S - (P + 2) - (P + 2)))).length ≠ P + 2 := by
        simp only [List.length_append, hl1, hl2]; omega
      have hge : 2 * (P + 2) ≤ (b1 ++ (b2 ++ rest2.flatten.take (S - (P + 2) - (P + 2)))).length := by
        simp only [List.length_append, hl1, hl2]; omega
      have hd2 : ((b1 ++ (b2 ++ rest2.flatten.take (S - (P + 2) - (P + 2)))).drop (P + 2 + P)).take 2 = PP := by
        rw [← List.drop_drop, List.drop_left' hl1, List.drop_append_of_le_length (by omega), ht2]
        rfl
      rw [if_neg hlen, hd1]
      simp only [beq_self_eq_true, if_true, hne1, if_false, hge, hd2, and_self]

/-- C17(a): every 1014-blocked file written by the library's writer — any number of records and
    blocks — is reported blocked -/
theorem C17_blocked_writer_output (recs : List Bytes) :
    block1014Check ((Writer.listToBytes 1012 true recs).take 2500) = true := by
  have hrun : Writer.listToBytes 1012 true recs = stream 1012 (Writer.rawWrites recs ++ [be32 0]) := by
    simp [Writer.listToBytes, Writer.run_blocked]
  obtain ⟨extra, _, he, hb⟩ := C04.C04_blocks (Writer.rawWrites recs ++ [be32 0])
  rw [hrun, he]
  apply blockCheck_blocks (P := 1012) (S := 2500) (by decide) _ hb
  -- at least one block: the data written is not empty (it ends with the 4-byte terminator)
  intro h0
  have hflat : (Writer.rawWrites recs ++ [be32 0]).flatten ≠ [] := by
    simp [be32]
  have hch : chunks 1012 (Writer.rawWrites recs ++ [be32 0]).flatten ≠ [] := by
    intro hc
    have := chunks_flatten 1012 (Writer.rawWrites recs ++ [be32 0]).flatten
    rw [hc] at this
    exact hflat this.symm
  cases hcc : chunks 1012 (Writer.rawWrites recs ++ [be32 0]).flatten with
  | nil => exact hch hcc
  | cons c cs => rw [hcc] at h0; simp at h0

/-- C17(b): an unblocked file is reported unblocked unless its bytes 1012–1013 are both 0x40 -/
theorem C17_unblocked (file : Bytes) (h : ((file.take 2500).drop 1012).take 2 ≠ PP) :
    block1014Check (file.take 2500) = false := by
  unfold block1014Check blockCheck
  split
  · rfl
  · have : (((file.take 2500).drop 1012).take 2 == PP) = false := by simpa using h
    simp [this]

/-- C17(c): the three invalid classes are reported invalid, each with its reason -/
theorem C17_invalid_short (cfgBits : List Nat) (maxLen : Nat) (t1 t2 : List Nat) (file : Bytes) (h : file.length < 24) :
    ipmInfo cfgBits maxLen t1 t2 file = .invalid .tooShort := by
  unfold ipmInfo ipmInfoP
  have : (file.take 2500).length < 24 := by rw [List.length_take]; omega
  simp only []
  rw [if_pos this]

theorem C17_invalid_length (cfgBits : List Nat) (maxLen : Nat) (t1 t2 : List Nat) (file : Bytes) (h24 : 24 ≤ file.length)
    (h : maxLen < be32dec ((file.take 2500).take 4)) :
    ipmInfo cfgBits maxLen t1 t2 file = .invalid .firstLengthTooLong := by
  unfold ipmInfo ipmInfoP
  have : ¬ (file.take 2500).length < 24 := by rw [List.length_take]; omega
  simp only []
  rw [if_neg this, if_pos h]

theorem C17_invalid_bitmap (cfgBits : List Nat) (maxLen : Nat) (t1 t2 : List Nat) (file : Bytes) (h24 : 24 ≤ file.length)
    (hlen : ¬ maxLen < be32dec ((file.take 2500).take 4)) (bit : Nat)
    (hbit : bitmapCheck cfgBits (((file.take 2500).drop 8).take 16) = some bit) :
    ipmInfo cfgBits maxLen t1 t2 file = .invalid (.bitmapUsesUnconfigured bit) ∧ bit ∉ cfgBits := by
  constructor
  · unfold ipmInfo ipmInfoP
    have : ¬ (file.take 2500).length < 24 := by rw [List.length_take]; omega
    simp only []
    rw [if_neg this, if_neg hlen, hbit]
  · unfold bitmapCheck at hbit
    have := List.find?_some hbit
    simpa using this

/-- C17(d): a file that is long enough, whose first length is within the maximum and whose first
    bitmap uses configured elements only, is reported valid -/
theorem C17_valid (cfgBits : List Nat) (maxLen : Nat) (t1 t2 : List Nat) (file : Bytes) (h24 : 24 ≤ file.length)
    (hlen : be32dec ((file.take 2500).take 4) ≤ maxLen)
    (hbits : ∀ b ∈ Iso.presentBits (((file.take 2500).drop 8).take 16), b ∈ cfgBits) :
    ∃ blk enc, ipmInfo cfgBits maxLen t1 t2 file = .valid blk enc := by
  unfold ipmInfo ipmInfoP
  have h1 : ¬ (file.take 2500).length < 24 := by rw [List.length_take]; omega
  have h2 : ¬ maxLen < be32dec ((file.take 2500).take 4) := by omega
  have h3 : bitmapCheck cfgBits (((file.take 2500).drop 8).take 16) = none := by
    unfold bitmapCheck
    rw [List.find?_eq_none]
    intro b hb
    simp [hbits b hb]
  simp only []
  rw [if_neg h1, if_neg h2, h3]
  exact ⟨_, _, rfl⟩

/-- C17(e): encoding family from the MTI bytes, using the tables measured from the interpreter
    (re-generated on every run): four ASCII digits → latin1, four EBCDIC digits → cp037 -/
theorem C17_encoding_ascii (mti : Bytes) (hl : mti ≠ []) (h : ∀ b ∈ mti, 0x30 ≤ b ∧ b ≤ 0x39) :
    encodingCheck Gen.latin1Numeric Gen.cp037Numeric mti = .latin1 := by
  have hall : mti.all Gen.latin1Numeric.contains = true := by
    rw [List.all_eq_true]
    intro b hb
    obtain ⟨h1, h2⟩ := h b hb
    have : ∀ x, 0x30 ≤ x → x ≤ 0x39 → Gen.latin1Numeric.contains x = true := by
      intro x hx1 hx2
      have : x = 48 ∨ x = 49 ∨ x = 50 ∨ x = 51 ∨ x = 52 ∨ x = 53 ∨ x = 54 ∨ x = 55 ∨ x = 56 ∨ x = 57 := by omega
      rcases this with rfl | rfl | rfl | rfl | rfl | rfl | rfl | rfl | rfl | rfl <;> decide
    exact this b h1 h2
  have hne : mti.isEmpty = false := by cases mti <;> simp_all
  simp [encodingCheck, allNumeric, hall, hne]

theorem C17_encoding_ebcdic (mti : Bytes) (hl : mti ≠ []) (h : ∀ b ∈ mti, 0xF0 ≤ b ∧ b ≤ 0xF9) :
    encodingCheck Gen.latin1Numeric Gen.cp037Numeric mti = .cp037 := by
  have hdig : ∀ x, 0xF0 ≤ x → x ≤ 0xF9 →
      Gen.latin1Numeric.contains x = false ∧ Gen.cp037Numeric.contains x = true := by
    intro x hx1 hx2
    have : x = 240 ∨ x = 241 ∨ x = 242 ∨ x = 243 ∨ x = 244 ∨ x = 245 ∨ x = 246 ∨ x = 247 ∨ x = 248 ∨ x = 249 := by omega
    rcases this with rfl | rfl | rfl | rfl | rfl | rfl | rfl | rfl | rfl | rfl <;> decide
  have hne : mti.isEmpty = false := by cases mti <;> simp_all
  have h037 : mti.all Gen.cp037Numeric.contains = true := by
    rw [List.all_eq_true]
    intro b hb
    exact (hdig b (h b hb).1 (h b hb).2).2
  have hlat : mti.all Gen.latin1Numeric.contains = false := by
    cases mti with
    | nil => exact absurd rfl hl
    | cons b bs =>
      have := (hdig b (h b (by simp)).1 (h b (by simp)).2).1
      simp only [List.all_cons, this, Bool.false_and]
  simp [encodingCheck, allNumeric, hlat, h037, hne]

-- sanity tests (evaluated): the test-suite samples 1014 / 2028 and a three-block file
#guard block1014Check (List.replicate 1012 32 ++ [64, 64]) == true
#guard block1014Check (List.replicate 1012 32 ++ [64, 64] ++ List.replicate 1013 32) == false
#guard block1014Check ((List.replicate 1012 32 ++ [64, 64] ++ List.replicate 1012 32 ++ [64, 64] ++ List.replicate 800 1).take 2500) == true

end Cardutil.Props.C17

namespace Cardutil.Props.C17

open Cardutil Cardutil.Block Cardutil.Info Cardutil.Iso

/-! ### the link to the writer: what an IPM file written by the library looks like at its start -/

/-- the first 24 bytes of a blocked stream are the first 24 bytes of the data (24 ≤ 1012) -/
theorem blockify_take24 (d : Bytes) (h : 24 ≤ d.length) : (blockify 1012 d).take 24 = d.take 24 := by
  rw [blockify]
  have h0 : d.length ≠ 0 := by omega
  simp only [h0, if_false]
  split
  · rw [List.append_assoc, List.take_append_of_le_length (by simp [List.length_take]; omega), List.take_take]
    congr 1
  · rw [List.append_assoc, List.take_append_of_le_length (by omega)]

/-- sample facts shared by both formats: a file that starts with `be32 n ++ mti ++ bitmap` where
    `n` is within the maximum, the bitmap flags configured elements only and the MTI is four digit
    bytes of one family is reported valid with that family -/
theorem info_of_start (cfgBits : List Nat) (maxLen : Nat) (file : Bytes) (n : Nat) (mti bitmap : Bytes)
    (hn : n ≤ maxLen) (hn32 : n < 4294967296) (hm : mti.length = 4) (hb : bitmap.length = 16)
    (hstart : file.take 24 = be32 n ++ (mti ++ bitmap))
    (hbits : ∀ b ∈ presentBits bitmap, b ∈ cfgBits) :
    ipmInfo cfgBits maxLen Gen.latin1Numeric Gen.cp037Numeric file =
      .valid (block1014Check (file.take 2500)) (encodingCheck Gen.latin1Numeric Gen.cp037Numeric mti) := by
  have hlen24 : 24 ≤ file.length := by
    have := congrArg List.length hstart
    simp only [List.length_take, List.length_append, be32_length, hm, hb] at this
    omega
  have hs24 : (file.take 2500).take 24 = be32 n ++ (mti ++ bitmap) := by
    rw [List.take_take]; exact hstart
  have h4 : (file.take 2500).take 4 = be32 n := by
    have : ((file.take 2500).take 24).take 4 = be32 n := by rw [hs24]; exact List.take_left' (be32_length n)
    rwa [List.take_take] at this
  have hm4 : ((file.take 2500).drop 4).take 4 = mti := by
    have : (((file.take 2500).take 24).drop 4).take 4 = mti := by
      rw [hs24, List.drop_left' (be32_length n)]; exact List.take_left' hm
    rw [List.drop_take, List.take_take] at this
    exact this
  have hb16 : ((file.take 2500).drop 8).take 16 = bitmap := by
    have : (((file.take 2500).take 24).drop 8).take 16 = bitmap := by
      rw [hs24, ← List.append_assoc, List.drop_left' (by simp [be32_length, hm])]
      exact List.take_of_length_le (by omega)
    rw [List.drop_take, List.take_take] at this
    exact this
  unfold ipmInfo ipmInfoP
  have h1 : ¬ (file.take 2500).length < 24 := by rw [List.length_take]; omega
  have hdec : be32dec (be32 n) = n := be32dec_be32 (by unfold lim32; exact hn32)
  have h3 : bitmapCheck cfgBits bitmap = none := by
    unfold bitmapCheck
    rw [List.find?_eq_none]
    intro b hb'
    simp [hbits b hb']
  simp only []
  rw [if_neg h1, h4, hdec, if_neg (by omega), hb16, h3, hm4]
  rfl

/-- C17(f): every IPM file written by the library's writer (unblocked), whose first message was
    encoded by `encodeCore` under a configuration whose elements are all known to the inspector and
    is within the maximum record length, is reported VALID with the encoding family of its MTI digits -/
theorem C17_writer_output_valid_unblocked (env : Env) (cfg : Config) (m : Dict) (rec1 : Bytes) (others : List Bytes)
    (maxLen : Nat) (hmax : maxLen < 4294967296)
    (henc : encodeCore env cfg false m = .ok rec1) (hlen : rec1.length ≤ maxLen)
    (cfgBits : List Nat) (hcfg : ∀ b, (∃ f, cfg.get b = some f) → b ∈ cfgBits)
    (mti : Bytes) (hmti : encodeMti env m = .ok mti) (hm4 : mti.length = 4) :
    ∃ blk, ipmInfo cfgBits maxLen Gen.latin1Numeric Gen.cp037Numeric (Writer.listToBytes 1012 false (rec1 :: others)) =
      .valid blk (encodingCheck Gen.latin1Numeric Gen.cp037Numeric mti) := by
  obtain ⟨mti', pres, data, hm', hbits, hbs, _, _, _⟩ := C02.C02_message_layout env cfg false m rec1 henc
  rw [hmti] at hm'
  injection hm' with e
  subst e
  simp only [Bool.false_eq_true, if_false] at hbs
  have hbl : (bytesOfBits (flagsOf pres)).length = 16 := bitmapOf_length pres
  obtain ⟨hsub, hpres, _, parts, _, _, hparts⟩ := C02.C02_elements_in_order env cfg m allBits pres data hbits
  refine ⟨_, info_of_start cfgBits maxLen _ rec1.length mti (bytesOfBits (flagsOf pres)) hlen (by omega) hm4 hbl ?_ ?_⟩
  · rw [C03.C03_layout_unblocked, vbsBytes_cons, hbs]
    simp only [List.append_assoc]
    rw [List.take_append, List.take_of_length_le (by simp [be32_length])]
    simp only [be32_length]
    rw [List.take_append, List.take_of_length_le (by omega), hm4,
      List.take_append, List.take_of_length_le (by omega), hbl]
    simp
  · intro b hb
    rw [← bitmapOf_eq, presentBits_bitmapOf_sublist pres hsub] at hb
    -- an emitted element has a configuration
    obtain ⟨i, hi, rfl⟩ := List.getElem_of_mem hb
    obtain ⟨f, v, hf, _, _⟩ := hparts i hi (by omega)
    exact hcfg _ ⟨f, hf⟩

/-- C17(g): the same for the 1014-BLOCKED writer, and there the report also says "blocked": the
    inspector's answer for every blocked IPM file the library writes — any number of records and
    blocks — is (valid, blocked, the MTI's encoding family) -/
theorem C17_writer_output_valid_blocked (env : Env) (cfg : Config) (m : Dict) (rec1 : Bytes) (others : List Bytes)
    (maxLen : Nat) (hmax : maxLen < 4294967296)
    (henc : encodeCore env cfg false m = .ok rec1) (hlen : rec1.length ≤ maxLen)
    (cfgBits : List Nat) (hcfg : ∀ b, (∃ f, cfg.get b = some f) → b ∈ cfgBits)
    (mti : Bytes) (hmti : encodeMti env m = .ok mti) (hm4 : mti.length = 4) :
    ipmInfo cfgBits maxLen Gen.latin1Numeric Gen.cp037Numeric (Writer.listToBytes 1012 true (rec1 :: others)) =
      .valid true (encodingCheck Gen.latin1Numeric Gen.cp037Numeric mti) := by
  obtain ⟨mti', pres, data, hm', hbits, hbs, _, _, _⟩ := C02.C02_message_layout env cfg false m rec1 henc
  rw [hmti] at hm'
  injection hm' with e
  subst e
  simp only [Bool.false_eq_true, if_false] at hbs
  have hbl : (bytesOfBits (flagsOf pres)).length = 16 := bitmapOf_length pres
  obtain ⟨hsub, hpres, _, parts, _, _, hparts⟩ := C02.C02_elements_in_order env cfg m allBits pres data hbits
  have hrun : Writer.listToBytes 1012 true (rec1 :: others) =
      stream 1012 (Writer.rawWrites (rec1 :: others) ++ [be32 0]) := by
    simp [Writer.listToBytes, Writer.run_blocked]
  have hflat : (Writer.rawWrites (rec1 :: others) ++ [be32 0]).flatten =
      be32 rec1.length ++ (mti ++ (bytesOfBits (flagsOf pres) ++ (data ++ (vbsBytes others ++ be32 0)))) := by
    rw [List.flatten_append, Writer.rawWrites_flatten, vbsBytes_cons, hbs]
    simp [List.append_assoc]
  have hd24 : 24 ≤ (Writer.rawWrites (rec1 :: others) ++ [be32 0]).flatten.length := by
    rw [hflat]; simp only [List.length_append, be32_length, hm4, hbl]; omega
  have hstart : (Writer.listToBytes 1012 true (rec1 :: others)).take 24 =
      be32 rec1.length ++ (mti ++ bytesOfBits (flagsOf pres)) := by
    have hb24 := blockify_take24 _ hd24
    have hbl24 : 24 ≤ (blockify 1012 (Writer.rawWrites (rec1 :: others) ++ [be32 0]).flatten).length := by
      have := congrArg List.length hb24
      simp only [List.length_take] at this
      omega
    have : (stream 1012 (Writer.rawWrites (rec1 :: others) ++ [be32 0])).take 24 =
        (Writer.rawWrites (rec1 :: others) ++ [be32 0]).flatten.take 24 := by
      rcases C04.C04_stream_vs_oneshot (Writer.rawWrites (rec1 :: others) ++ [be32 0]) with h | h
      · rw [h, hb24]
      · rw [h, List.take_append_of_le_length hbl24, hb24]
    rw [hrun, this, hflat]
    rw [List.take_append, List.take_of_length_le (by simp [be32_length])]
    simp only [be32_length]
    rw [List.take_append, List.take_of_length_le (by omega), hm4,
      List.take_append, List.take_of_length_le (by omega), hbl]
    simp
  rw [info_of_start cfgBits maxLen _ rec1.length mti (bytesOfBits (flagsOf pres)) hlen (by omega) hm4 hbl hstart ?_,
    C17_blocked_writer_output]
  intro b hb
  rw [← bitmapOf_eq, presentBits_bitmapOf_sublist pres hsub] at hb
  obtain ⟨i, hi, rfl⟩ := List.getElem_of_mem hb
  obtain ⟨f, v, hf, _, _⟩ := hparts i hi (by omega)
  exact hcfg _ ⟨f, hf⟩

end Cardutil.Props.C17
