import Cardutil.Model.Info
import Cardutil.Props.C04
import Cardutil.Props.C03
import Cardutil.Gen.Config
import Cardutil.Gen.PyTables
import Cardutil.Gen.Limits
/-
  C17 — file inspection recognises writer output: validity, encoding family, blocking.

  `Info.ipmInfoP S P …` models `ipm_info` with the sample size `S` (2500) and payload size `P`
  (1012) as parameters; the lemmas are generic in `P` and in `S ≥ 2·(P+2)`, the property theorems
  instantiate the code's constants.  Files have any number of blocks.
-/
namespace Cardutil.Props.C17

open Cardutil Cardutil.Block Cardutil.Info

theorem take2_PP : PP.take 2 = PP := rfl

/-- a blocked file of one or more blocks is recognised from its first sample, however many
    blocks follow (the defect was: only files of exactly one or two blocks were) -/
theorem blockCheck_blocks {P S : Nat} (hS : 2 * (P + 2) ≤ S) (bs : List Bytes) (hb : Blocks P bs) (hne : bs ≠ []) :
    blockCheck P (bs.flatten.take S) = true := by
  cases bs with
  | nil => exact absurd rfl hne
  | cons b1 rest =>
    obtain ⟨hl1, ht1⟩ := hb b1 (by simp)
    cases rest with
    | nil =>
      have hs : ([b1] : List Bytes).flatten.take S = b1 := by
        simp only [List.flatten_cons, List.flatten_nil, List.append_nil]
        exact List.take_of_length_le (by omega)
      rw [hs]
      unfold blockCheck
      rw [if_neg (by omega), ht1, take2_PP]
      simp [hl1]
    | cons b2 rest2 =>
      obtain ⟨hl2, ht2⟩ := hb b2 (by simp)
      have hs : (b1 :: b2 :: rest2).flatten.take S = b1 ++ (b2 ++ rest2.flatten.take (S - (P + 2) - (P + 2))) := by
        simp only [List.flatten_cons]
        rw [List.take_append, List.take_of_length_le (by omega), hl1,
          List.take_append, List.take_of_length_le (by omega), hl2]
      rw [hs]
      unfold blockCheck
      have hlen : ¬ (b1 ++ (b2 ++ rest2.flatten.take (S - (P + 2) - (P + 2)))).length < P + 2 := by
        simp only [List.length_append, hl1]; omega
      have hd1 : ((b1 ++ (b2 ++ rest2.flatten.take (S - (P + 2) - (P + 2)))).drop P).take 2 = PP := by
        rw [List.drop_append_of_le_length (by omega), ht1]
        rfl
      have hne1 : (b1 ++ (b2 ++ rest2.flatten.take (S - (P + 2) - (P + 2)))).length ≠ P + 2 := by
        simp only [List.length_append, hl1, hl2]; omega
      have hge : 2 * (P + 2) ≤ (b1 ++ (b2 ++ rest2.flatten.take (S - (P + 2) - (P + 2)))).length := by
        simp only [List.length_append, hl1, hl2]; omega
      have hd2 : ((b1 ++ (b2 ++ rest2.flatten.take (S - (P + 2) - (P + 2)))).drop (P + 2 + P)).take 2 = PP := by
        rw [← List.drop_drop, List.drop_left' hl1, List.drop_append_of_le_length (by omega), ht2]
        rfl
      rw [if_neg hlen, hd1]
      simp only [beq_self_eq_true, if_true, hne1, if_false, hge, hd2, and_self]

/-- C17(a): every 1014-blocked file written by the library's writer — any number of records and
    blocks — is reported blocked -/
theorem C17_blocked_writer_output (recs : List Bytes) :
    block1014Check ((Writer.listToBytes 1012 true recs).take 2500) = true := by
  have hrun : Writer.listToBytes 1012 true recs = stream 1012 (Writer.rawWrites recs ++ [be32 0]) := by
    simp [Writer.listToBytes, Writer.run_blocked]
  obtain ⟨extra, _, he, hb⟩ := C04.C04_blocks (Writer.rawWrites recs ++ [be32 0])
  rw [hrun, he]
  apply blockCheck_blocks (P := 1012) (S := 2500) (by decide) _ hb
  -- at least one block: the data written is not empty (it ends with the 4-byte terminator)
  intro h0
  have hflat : (Writer.rawWrites recs ++ [be32 0]).flatten ≠ [] := by
    simp [be32]
  have hch : chunks 1012 (Writer.rawWrites recs ++ [be32 0]).flatten ≠ [] := by
    intro hc
    have := chunks_flatten 1012 (Writer.rawWrites recs ++ [be32 0]).flatten
    rw [hc] at this
    exact hflat this.symm
  cases hcc : chunks 1012 (Writer.rawWrites recs ++ [be32 0]).flatten with
  | nil => exact hch hcc
  | cons c cs => rw [hcc] at h0; simp at h0

/-- C17(b): an unblocked file is reported unblocked unless its bytes 1012–1013 are both 0x40 -/
theorem C17_unblocked (file : Bytes) (h : ((file.take 2500).drop 1012).take 2 ≠ PP) :
    block1014Check (file.take 2500) = false := by
  unfold block1014Check blockCheck
  split
  · rfl
  · have : (((file.take 2500).drop 1012).take 2 == PP) = false := by simpa using h
    simp [this]

/-- C17(c): the three invalid classes are reported invalid, each with its reason -/
theorem C17_invalid_short (cfgBits : List Nat) (maxLen : Nat) (t1 t2 : List Nat) (file : Bytes) (h : file.length < 24) :
    ipmInfo cfgBits maxLen t1 t2 file = .invalid .tooShort := by
  unfold ipmInfo ipmInfoP
  have : (file.take 2500).length < 24 := by rw [List.length_take]; omega
  simp only []
  rw [if_pos this]

theorem C17_invalid_length (cfgBits : List Nat) (maxLen : Nat) (t1 t2 : List Nat) (file : Bytes) (h24 : 24 ≤ file.length)
    (h : maxLen < be32dec ((file.take 2500).take 4)) :
    ipmInfo cfgBits maxLen t1 t2 file = .invalid .firstLengthTooLong := by
  unfold ipmInfo ipmInfoP
  have : ¬ (file.take 2500).length < 24 := by rw [List.length_take]; omega
  simp only []
  rw [if_neg this, if_pos h]

theorem C17_invalid_bitmap (cfgBits : List Nat) (maxLen : Nat) (t1 t2 : List Nat) (file : Bytes) (h24 : 24 ≤ file.length)
    (hlen : ¬ maxLen < be32dec ((file.take 2500).take 4)) (bit : Nat)
    (hbit : bitmapCheck cfgBits (((file.take 2500).drop 8).take 16) = some bit) :
    ipmInfo cfgBits maxLen t1 t2 file = .invalid (.bitmapUsesUnconfigured bit) ∧ bit ∉ cfgBits := by
  constructor
  · unfold ipmInfo ipmInfoP
    have : ¬ (file.take 2500).length < 24 := by rw [List.length_take]; omega
    simp only []
    rw [if_neg this, if_neg hlen, hbit]
  · unfold bitmapCheck at hbit
    have := List.find?_some hbit
    simpa using this

/-- C17(d): a file that is long enough, whose first length is within the maximum and whose first
    bitmap uses configured elements only, is reported valid -/
theorem C17_valid (cfgBits : List Nat) (maxLen : Nat) (t1 t2 : List Nat) (file : Bytes) (h24 : 24 ≤ file.length)
    (hlen : be32dec ((file.take 2500).take 4) ≤ maxLen)
    (hbits : ∀ b ∈ Iso.presentBits (((file.take 2500).drop 8).take 16), b ∈ cfgBits) :
    ∃ blk enc, ipmInfo cfgBits maxLen t1 t2 file = .valid blk enc := by
  unfold ipmInfo ipmInfoP
  have h1 : ¬ (file.take 2500).length < 24 := by rw [List.length_take]; omega
  have h2 : ¬ maxLen < be32dec ((file.take 2500).take 4) := by omega
  have h3 : bitmapCheck cfgBits (((file.take 2500).drop 8).take 16) = none := by
    unfold bitmapCheck
    rw [List.find?_eq_none]
    intro b hb
    simp [hbits b hb]
  simp only []
  rw [if_neg h1, if_neg h2, h3]
  exact ⟨_, _, rfl⟩

/-- C17(e): encoding family from the MTI bytes, using the tables measured from the interpreter
    (re-generated on every run): four ASCII digits → latin1, four EBCDIC digits → cp037 -/
theorem C17_encoding_ascii (mti : Bytes) (hl : mti ≠ []) (h : ∀ b ∈ mti, 0x30 ≤ b ∧ b ≤ 0x39) :
    encodingCheck Gen.latin1Numeric Gen.cp037Numeric mti = .latin1 := by
  have hall : mti.all Gen.latin1Numeric.contains = true := by
    rw [List.all_eq_true]
    intro b hb
    obtain ⟨h1, h2⟩ := h b hb
    have : ∀ x, 0x30 ≤ x → x ≤ 0x39 → Gen.latin1Numeric.contains x = true := by
      intro x hx1 hx2
      have : x = 48 ∨ x = 49 ∨ x = 50 ∨ x = 51 ∨ x = 52 ∨ x = 53 ∨ x = 54 ∨ x = 55 ∨ x = 56 ∨ x = 57 := by omega
      rcases this with rfl | rfl | rfl | rfl | rfl | rfl | rfl | rfl | rfl | rfl <;> decide
    exact this b h1 h2
  have hne : mti.isEmpty = false := by cases mti <;> simp_all
  simp [encodingCheck, allNumeric, hall, hne]

theorem C17_encoding_ebcdic (mti : Bytes) (hl : mti ≠ []) (h : ∀ b ∈ mti, 0xF0 ≤ b ∧ b ≤ 0xF9) :
    encodingCheck Gen.latin1Numeric Gen.cp037Numeric mti = .cp037 := by
  have hdig : ∀ x, 0xF0 ≤ x → x ≤ 0xF9 →
      Gen.latin1Numeric.contains x = false ∧ Gen.cp037Numeric.contains x = true := by
    intro x hx1 hx2
    have : x = 240 ∨ x = 241 ∨ x = 242 ∨ x = 243 ∨ x = 244 ∨ x = 245 ∨ x = 246 ∨ x = 247 ∨ x = 248 ∨ x = 249 := by omega
    rcases this with rfl | rfl | rfl | rfl | rfl | rfl | rfl | rfl | rfl | rfl <;> decide
  have hne : mti.isEmpty = false := by cases mti <;> simp_all
  have h037 : mti.all Gen.cp037Numeric.contains = true := by
    rw [List.all_eq_true]
    intro b hb
    exact (hdig b (h b hb).1 (h b hb).2).2
  have hlat : mti.all Gen.latin1Numeric.contains = false := by
    cases mti with
    | nil => exact absurd rfl hl
    | cons b bs =>
      have := (hdig b (h b (by simp)).1 (h b (by simp)).2).1
      simp only [List.all_cons, this, Bool.false_and]
  simp [encodingCheck, allNumeric, hlat, h037, hne]

-- sanity tests (evaluated): the test-suite samples 1014 / 2028 and a three-block file
#guard block1014Check (List.replicate 1012 32 ++ [64, 64]) == true
#guard block1014Check (List.replicate 1012 32 ++ [64, 64] ++ List.replicate 1013 32) == false
#guard block1014Check ((List.replicate 1012 32 ++ [64, 64] ++ List.replicate 1012 32 ++ [64, 64] ++ List.replicate 800 1).take 2500) == true

end Cardutil.Props.C17
