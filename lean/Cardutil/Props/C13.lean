import Cardutil.Lemmas.Pin
import Cardutil.Lemmas.Des
import Cardutil.Lemmas.Aes
/-
  C13 — PIN blocks follow ISO 9564 formats 0 and 4 and return the PIN, for 4–12 digits.

  `iso0ToBytes` / `iso0FromBytes` / `iso4ToBytes` / `iso4FromBytes` follow the code's string
  formatting and integer arithmetic literally (Model/PinBlock.lean).  The ISO 9564 layouts are
  stated independently as nibble lists (`p1Nibbles`, `p2Nibbles`, `f4Nibbles` in Lemmas/Pin.lean:
  control nibble, length as ONE hex digit, PIN digits, F/A fill; 0000 + 12 PAN digits).
  All PINs of 4..12 digits, all PANs of ≥ 13 digits, all 64-bit fills; no sampling.
-/
namespace Cardutil.Props.C13

open Cardutil Cardutil.Pin Cardutil.Digits

theorem p1_shape (pin : Text) : p1Nibbles pin = 0 :: pin.length :: (pin.map (· - 48) ++ List.replicate (14 - pin.length) 15) := rfl
theorem p2_shape (pan : Text) : p2Nibbles pan = 0 :: 0 :: 0 :: 0 :: (rightmost12 pan).map (· - 48) := rfl
theorem f4_shape (pin : Text) : f4Nibbles pin = 4 :: pin.length :: (pin.map (· - 48) ++ List.replicate (14 - pin.length) 10) := rfl

/-- reading the length nibble and the PIN back out of a 16-nibble clear field `c, L, PIN, fill` -/
theorem read_pin (c : Nat) (pin : Text) (fill : List Nat) (hp : AllDigits pin) (hl : pin.length < 16) :
    (do
      let p1 := (c :: pin.length :: (pin.map (· - 48) ++ fill)).map hexChar
      let l ← intHex ((p1.drop 1).take 1)
      (.ok ((p1.drop 2).take l) : Outcome Text)) = .ok pin := by
  have e : parseHexText [hexChar pin.length] = some [pin.length] := by
    simpa using parseHexText_hexChars [pin.length] (by simp; omega)
  simp only [List.map_cons, List.drop_succ_cons, List.drop_zero, List.take_succ_cons, List.take_zero,
    List.map_append, digits_hexChar pin hp]
  rw [intHex_of_parse e]
  simp [fromDigits]

/-- C13, format 0: the block is (0, L, PIN, F…) XOR (0000, 12 PAN digits) nibble by nibble,
    8 bytes long, and rebuilding from the block with the same PAN returns the PIN. -/
theorem C13_iso0 (pin pan : Text) (hpin : AllDigits pin) (hl4 : 4 ≤ pin.length) (hl12 : pin.length ≤ 12)
    (hpan : AllDigits pan) (hpl : 13 ≤ pan.length) :
    ∃ blk, iso0ToBytes pin pan = .ok blk ∧ blk.length = 8 ∧
      bytesToNibbles blk = List.zipWith (· ^^^ ·) (p1Nibbles pin) (p2Nibbles pan) ∧
      iso0FromBytes blk pan = .ok pin := by
  have hA : intHex (ljust 16 102 ([48] ++ lenField pin ++ pin)) = .ok (fromDigits 16 (p1Nibbles pin)) := by
    have := parse_p1 hpin (show pin.length ≤ 14 by omega)
    rw [p1_shape] at this ⊢; exact intHex_of_parse this
  have hB : intHex ([48, 48, 48, 48] ++ rightmost12 pan) = .ok (fromDigits 16 (p2Nibbles pan)) := by
    have := parse_p2 hpan
    rw [p2_shape] at this ⊢; exact intHex_of_parse this
  have h1lt := p1_lt16 hpin (show pin.length < 16 by omega)
  have h2lt := p2_lt16 hpan
  have hl1 := length_p1 (show pin.length ≤ 14 by omega)
  have hl2 := length_p2 hpl
  have hP1 : fromDigits 16 (p1Nibbles pin) < 2 ^ 64 := by
    have := fromDigits_lt _ h1lt; rw [hl1, pow16] at this; exact this
  have hP2 : fromDigits 16 (p2Nibbles pan) < 2 ^ 64 := by
    have := fromDigits_lt _ h2lt; rw [hl2, pow16] at this; exact this
  have hv : fromDigits 16 (p1Nibbles pin) ^^^ fromDigits 16 (p2Nibbles pan) < 2 ^ 64 :=
    Nat.xor_lt_two_pow hP1 hP2
  refine ⟨toDigits 256 8 (fromDigits 16 (p1Nibbles pin) ^^^ fromDigits 16 (p2Nibbles pan)), ?_, by simp, ?_, ?_⟩
  · simp only [iso0ToBytes, hA, hB, Outcome.bind_ok, hv, if_true]
  · rw [toDigits256_nibbles, fromDigits_xor _ _ (by rw [hl1, hl2]) h1lt h2lt]
    have hz : (List.zipWith (· ^^^ ·) (p1Nibbles pin) (p2Nibbles pan)).length = 2 * 8 := by
      simp [hl1, hl2]
    rw [← hz]
    exact toDigits_fromDigits _ (zipWith_xor_lt16 _ _ h1lt h2lt)
  · simp only [iso0FromBytes, hB, Outcome.bind_ok]
    rw [fromDigits_toDigits 8 _ (by rw [pow256]; exact hv), xor_cancel]
    have hf : fmtHexW 16 (fromDigits 16 (p1Nibbles pin)) = p1Nibbles pin := by
      unfold fmtHexW
      rw [pow16, if_pos hP1]
      have := toDigits_fromDigits _ h1lt
      rwa [hl1] at this
    rw [hf, p1_shape]
    exact read_pin 0 pin _ hpin (by omega)

/-- C13, format 4: the block is (4, L, PIN, A fill to 16 digits, the 64 supplied random bits) and
    rebuilding from the block returns the PIN. -/
theorem C13_iso4 (pin : Text) (rnd : Nat) (hpin : AllDigits pin) (hl4 : 4 ≤ pin.length) (hl12 : pin.length ≤ 12)
    (hr : rnd < 2 ^ 64) :
    ∃ blk, iso4ToBytes pin rnd = .ok blk ∧ blk.length = 16 ∧
      bytesToNibbles blk = f4Nibbles pin ++ toDigits 16 16 rnd ∧
      iso4FromBytes blk = .ok pin := by
  have hlt : ∀ n ∈ f4Nibbles pin ++ toDigits 16 16 rnd, n < 16 := by
    intro n hn
    rcases List.mem_append.mp hn with h | h
    · exact f4_lt16 hpin (by omega) n h
    · exact toDigits_lt (by decide) _ _ n h
  have hlen : (f4Nibbles pin ++ toDigits 16 16 rnd).length = 32 := by
    simp [length_f4 (show pin.length ≤ 14 by omega)]
  have hparse : parseHexText (ljust 16 97 ([52] ++ lenField pin ++ pin) ++ (fmtHexW 16 rnd).map hexChar) =
      some (f4Nibbles pin ++ toDigits 16 16 rnd) := by
    have hf : fmtHexW 16 rnd = toDigits 16 16 rnd := by
      unfold fmtHexW; rw [pow16, if_pos hr]
    rw [hf]
    exact parseHexText_append (parse_f4 hpin (by omega))
      (parseHexText_hexChars _ (toDigits_lt (by decide) _ _))
  have hb : bytesToNibbles (nibblesToBytes (f4Nibbles pin ++ toDigits 16 16 rnd)) =
      f4Nibbles pin ++ toDigits 16 16 rnd := bytesToNibbles_nibblesToBytes _ hlt (by rw [hlen])
  refine ⟨nibblesToBytes (f4Nibbles pin ++ toDigits 16 16 rnd), ?_, ?_, hb, ?_⟩
  · simp only [iso4ToBytes, unhexlify, hparse, hlen]; rfl
  · have : (bytesToNibbles (nibblesToBytes (f4Nibbles pin ++ toDigits 16 16 rnd))).length = 32 := by
      rw [hb, hlen]
    have h2 : ∀ bs : Bytes, (bytesToNibbles bs).length = 2 * bs.length := by
      intro bs
      induction bs with
      | nil => rfl
      | cons b bs ih => simp [bytesToNibbles] at ih ⊢; omega
    rw [h2] at this; omega
  · simp only [iso4FromBytes, hb]
    rw [f4_shape, List.cons_append, List.cons_append, List.append_assoc]
    exact read_pin 4 pin _ hpin (by omega)

/-- C13, encrypted forms: for ANY block cipher whose decryption inverts its encryption under the
    key, decrypting the encrypted block and rebuilding returns the same PIN (both formats). -/
theorem C13_encrypted_roundtrip (E D : Bytes → Bytes) (hED : ∀ x, D (E x) = x)
    (pin pan : Text) (rnd : Nat) (hpin : AllDigits pin) (hl4 : 4 ≤ pin.length) (hl12 : pin.length ≤ 12)
    (hpan : AllDigits pan) (hpl : 13 ≤ pan.length) (hr : rnd < 2 ^ 64) :
    ((iso0ToBytes pin pan) >>= fun b => iso0FromBytes (D (E b)) pan) = .ok pin ∧
    ((iso4ToBytes pin rnd) >>= fun b => iso4FromBytes (D (E b))) = .ok pin := by
  obtain ⟨b0, h0, _, _, hb0⟩ := C13_iso0 pin pan hpin hl4 hl12 hpan hpl
  obtain ⟨b4, h4, _, _, hb4⟩ := C13_iso4 pin rnd hpin hl4 hl12 hr
  simp [h0, h4, hED, hb0, hb4]

/-! ### Triple DES itself (the cipher of `TdesEncryptedPinBlockMixin`), not a hypothesis -/

theorem bind_eq_ok {α β} (x : Outcome α) (f : α → Outcome β) (b : β) (h : (x >>= f) = .ok b) :
    ∃ a, x = .ok a ∧ f a = .ok b := by
  cases x with
  | ok a => exact ⟨a, rfl, h⟩
  | dataError => simp [bind, Outcome.bind] at h
  | escape k => simp [bind, Outcome.bind] at h
  | diverge => simp [bind, Outcome.bind] at h

theorem splitKey_some (key : Bytes) (hk : key.length = 8 ∨ key.length = 16 ∨ key.length = 24) :
    ∃ k1 k2 k3, Des.splitKey key = some (k1, k2, k3) := by
  unfold Des.splitKey
  rcases hk with h | h | h <;> simp [h]

theorem tdes_encrypts (key data : Bytes) (hk : key.length = 8 ∨ key.length = 16 ∨ key.length = 24)
    (hd : data.length % 8 = 0) : ∃ ct, Des.tdesEcb false key data = .ok ct ∧ ct.length = data.length := by
  obtain ⟨k1, k2, k3, hs⟩ := splitKey_some key hk
  rw [Des.ecb_unfold false key data k1 k2 k3 hs hd]
  refine ⟨_, rfl, ?_⟩
  have hn : data.length = 8 * (data.length / 8) := by omega
  obtain ⟨_, hlen, _⟩ := Des.blocks8_spec (data.length / 8) data hn
  simp only [Bool.false_eq_true, if_false]
  rw [Des.flatMap_length8 _ _ (fun x _ => Des.encB_length k1 k2 k3 x), hlen]
  omega

theorem nibblesToBytes_lt : ∀ (ns : List Nat), (∀ n ∈ ns, n < 16) → ∀ x ∈ nibblesToBytes ns, x < 256
  | [], _ => by intro x hx; simp [nibblesToBytes] at hx
  | [_], _ => by intro x hx; simp [nibblesToBytes] at hx
  | a :: b :: rest, h => by
    intro x hx
    simp only [nibblesToBytes, List.mem_cons] at hx
    rcases hx with rfl | hx
    · have := h a (by simp); have := h b (by simp); omega
    · exact nibblesToBytes_lt rest (fun n hn => h n (by simp [hn])) x hx

/-- C13 with the cipher INSIDE the model: for every Triple DES key of 8, 16 or 24 bytes, every PIN of 4..12 digits and
    every PAN of 13 or more digits, the format-0 block is encrypted to 8 bytes, decryption under the same key returns
    the block, and rebuilding returns the PIN -/
theorem C13_tdes_iso0 (key : Bytes) (hk : key.length = 8 ∨ key.length = 16 ∨ key.length = 24)
    (pin pan : Text) (hpin : AllDigits pin) (hl4 : 4 ≤ pin.length) (hl12 : pin.length ≤ 12)
    (hpan : AllDigits pan) (hpl : 13 ≤ pan.length) :
    ∃ blk ct, iso0ToBytes pin pan = .ok blk ∧ Des.tdesEcb false key blk = .ok ct ∧ ct.length = 8 ∧
      Des.tdesEcb true key ct = .ok blk ∧ iso0FromBytes blk pan = .ok pin := by
  obtain ⟨blk, h0, hlen, hnib, hback⟩ := C13_iso0 pin pan hpin hl4 hl12 hpan hpl
  obtain ⟨ct, hct, hctl⟩ := tdes_encrypts key blk hk (by omega)
  have hbytes : Des.IsBytes blk := by
    have h := h0
    unfold iso0ToBytes at h
    obtain ⟨p1, _, h⟩ := bind_eq_ok _ _ _ h
    obtain ⟨p2, _, h⟩ := bind_eq_ok _ _ _ h
    simp only at h
    split at h
    · simp only [Outcome.ok.injEq] at h
      rw [← h]
      exact toDigits_lt (by decide) 8 _
    · simp at h
  exact ⟨blk, ct, h0, hct, by omega, Des.tdesEcb_dec_enc key blk ct hbytes hct, hback⟩

/-- the bytes of a format-4 block are bytes -/
theorem iso4ToBytes_bytes (pin : Text) (rnd : Nat) (blk : Bytes) (h4 : iso4ToBytes pin rnd = .ok blk) :
    Des.IsBytes blk := by
    have h := h4
    unfold iso4ToBytes unhexlify at h
    split at h
    · rename_i ns hp
      split at h
      · simp only [Outcome.ok.injEq] at h
        rw [← h]
        apply nibblesToBytes_lt
        intro n hn
        have : ∀ (t : Text) (ms : List Nat), parseHexText t = some ms → ∀ m ∈ ms, m < 16 := by
          intro t
          induction t with
          | nil => intro ms h; simp [parseHexText] at h; subst h; simp
          | cons c t ih =>
            intro ms h
            rw [parseHexText_cons] at h
            cases hc : hexNibble? c with
            | none => simp [hc] at h
            | some v =>
              cases ht : parseHexText t with
              | none => simp [hc, ht] at h
              | some vs =>
                simp [hc, ht] at h
                subst h
                intro m hm
                simp at hm
                rcases hm with rfl | hm
                · unfold hexNibble? at hc
                  split at hc
                  · simp at hc; omega
                  · split at hc
                    · simp at hc; omega
                    · split at hc
                      · simp at hc; omega
                      · simp at hc
                · exact ih vs ht m hm
        exact this _ ns hp n hn
      · simp at h
    · simp at h

/-- … and format 4 under the Triple DES mix-in (two ECB blocks) -/
theorem C13_tdes_iso4 (key : Bytes) (hk : key.length = 8 ∨ key.length = 16 ∨ key.length = 24)
    (pin : Text) (rnd : Nat) (hpin : AllDigits pin) (hl4 : 4 ≤ pin.length) (hl12 : pin.length ≤ 12) (hr : rnd < 2 ^ 64) :
    ∃ blk ct, iso4ToBytes pin rnd = .ok blk ∧ Des.tdesEcb false key blk = .ok ct ∧ ct.length = 16 ∧
      Des.tdesEcb true key ct = .ok blk ∧ iso4FromBytes blk = .ok pin := by
  obtain ⟨blk, h4, hlen, hnib, hback⟩ := C13_iso4 pin rnd hpin hl4 hl12 hr
  obtain ⟨ct, hct, hctl⟩ := tdes_encrypts key blk hk (by omega)
  have hbytes : Des.IsBytes blk := iso4ToBytes_bytes pin rnd blk h4
  exact ⟨blk, ct, h4, hct, by omega, Des.tdesEcb_dec_enc key blk ct hbytes hct, hback⟩

/-! ### AES itself (the cipher of `AESEncryptedPinBlockMixin`), not a hypothesis -/

theorem splitKeys_some (rks : List (List Nat)) (h : 2 ≤ rks.length) : ∃ k, Aes.splitKeys rks = some k := by
  match rks, h with
  | k0 :: k1 :: rest, _ =>
    simp only [Aes.splitKeys]
    cases hr : (k1 :: rest).reverse with
    | nil => simp at hr
    | cons kl revMids => exact ⟨_, rfl⟩

theorem aes_encrypts (key x : Bytes) (hk : key.length = 16 ∨ key.length = 24 ∨ key.length = 32) :
    ∃ c, Aes.encryptBlock key x = some c := by
  unfold Aes.encryptBlock Aes.roundKeys
  rw [if_pos hk]
  simp only [Option.bind_some]
  obtain ⟨k, hs⟩ := splitKeys_some ((List.range (key.length / 4 + 7)).map
    (fun r => (((Aes.expandGo (key.length / 4) (4 * (key.length / 4 + 7) - key.length / 4) (Aes.words key)).drop (4 * r)).take 4).flatten))
    (by simp)
  rw [hs]
  exact ⟨_, rfl⟩

/-- C13, AES form: for every 128-, 192- or 256-bit key, the format-4 block of every PIN of 4..12 digits is encrypted
    by the AES of Model/Aes.lean to a 16-byte block that the inverse cipher turns back into the clear block, from which
    the PIN is read back.  No property of the cipher is assumed: `invCipher_cipher` is proved. -/
theorem C13_aes_iso4 (key : Bytes) (hk : key.length = 16 ∨ key.length = 24 ∨ key.length = 32)
    (pin : Text) (rnd : Nat) (hpin : AllDigits pin) (hl4 : 4 ≤ pin.length) (hl12 : pin.length ≤ 12) (hr : rnd < 2 ^ 64) :
    ∃ blk ct, iso4ToBytes pin rnd = .ok blk ∧ Aes.encryptBlock key blk = some ct ∧ ct.length = 16 ∧
      Aes.decryptBlock key ct = some blk ∧ iso4FromBytes blk = .ok pin := by
  obtain ⟨blk, h4, hlen, _, hback⟩ := C13_iso4 pin rnd hpin hl4 hl12 hr
  obtain ⟨ct, hct⟩ := aes_encrypts key blk hk
  have hst : Aes.IsState blk := ⟨hlen, iso4ToBytes_bytes pin rnd blk h4⟩
  obtain ⟨hdec, hcs⟩ := Aes.decryptBlock_encryptBlock key blk ct hst hct
  exact ⟨blk, ct, h4, hct, hcs.1, hdec, hback⟩

/-- non-vacuity and a known answer (module documentation): PIN 1234, PAN 1111222233334444 -/
example : AllDigits [49, 50, 51, 52] ∧ 4 ≤ [49, 50, 51, 52].length ∧ [49, 50, 51, 52].length ≤ 12 := by
  refine ⟨?_, by decide, by decide⟩
  intro c hc; simp at hc; omega

-- evaluated tests: documentation vector 041226dddccccbbb and a 12-digit PIN (length nibble C)
#guard iso0ToBytes [49,50,51,52] [49,49,49,49,50,50,50,50,51,51,51,51,52,52,52,52] ==
  .ok [0x04, 0x12, 0x26, 0xdd, 0xdc, 0xcc, 0xcb, 0xbb]
#guard (iso4ToBytes [49,50,51,52,53,54,55,56,57,48,49,50] 1).bind (fun b => .ok (b.take 8)) ==
  .ok [0x4c, 0x12, 0x34, 0x56, 0x78, 0x90, 0x12, 0xaa]

-- the module documentation's encrypted block: PIN 1234, PAN 1111222233334444, key 00 x 16 -> 4c0906d10308871a
#guard (iso0ToBytes [49,50,51,52] [49,49,49,49,50,50,50,50,51,51,51,51,52,52,52,52]).bind
    (Des.tdesEcb false (List.replicate 16 0)) == .ok [0x4c, 0x09, 0x06, 0xd1, 0x03, 0x08, 0x87, 0x1a]

end Cardutil.Props.C13
