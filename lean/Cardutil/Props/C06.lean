import Cardutil.Lemmas.Vbs
import Cardutil.Props.C03
import Cardutil.Props.C01
import Cardutil.Props.C02
/-
  C06 — IPM file round trip: messages written are the messages read back.

  Stated for ANY message encoder `enc` and decoder `dec` related by a per-message round trip
  `dec (enc m) = ok (expected m)` — which is C01's conclusion for the ISO8583 model — so the file
  level adds no condition of its own beyond "each encoded message is non-empty and within the
  maximum record length".  Any number of records, any mix of message shapes, VBS and 1014.
-/
namespace Cardutil.Props.C06

open Cardutil Cardutil.Block Cardutil.Vbs

/-- `IpmWriter`: encode each message, hand the record to the VBS writer, close once -/
def ipmWrite {μ} (enc : μ → Outcome Bytes) (blocked : Bool) (msgs : List μ) : Outcome Bytes :=
  (Outcome.mapO enc msgs).bind (fun recs => .ok (Writer.listToBytes 1012 blocked recs))

/-- `list(IpmReader(file))` -/
def ipmRead {α} (dec : Bytes → Outcome α) (maxLen : Nat) (blocked : Bool) (file : Bytes) : List α × End :=
  if blocked then ipmReadAll (unblockSrc 1012) maxLen dec (file.length + 1) (init ⟨file, []⟩)
  else ipmReadAll plainSrc maxLen dec (file.length + 1) (init file)

theorem mapO_ok {μ} (enc : μ → Outcome Bytes) (msgs : List μ) (recOf : μ → Bytes)
    (h : ∀ m ∈ msgs, enc m = .ok (recOf m)) : Outcome.mapO enc msgs = .ok (msgs.map recOf) := by
  induction msgs with
  | nil => rfl
  | cons m ms ih =>
    simp only [Outcome.mapO, h m (by simp), ih (fun x hx => h x (by simp [hx])), Outcome.bind, List.map_cons]

/-- C06: any sequence of messages written to an IPM file and read back with the same encoding,
    blocking and configuration is returned as the same sequence (of expected values), then end of
    data — for both formats. -/
theorem C06_file_roundtrip {μ α} (enc : μ → Outcome Bytes) (dec : Bytes → Outcome α) (expected : μ → α)
    (recOf : μ → Bytes) (maxLen : Nat) (hmax : maxLen < 4294967296) (blocked : Bool) (msgs : List μ)
    (henc : ∀ m ∈ msgs, enc m = .ok (recOf m) ∧ 0 < (recOf m).length ∧ (recOf m).length ≤ maxLen)
    (hdec : ∀ m ∈ msgs, dec (recOf m) = .ok (expected m)) :
    ∃ file, ipmWrite enc blocked msgs = .ok file ∧
      ipmRead dec maxLen blocked file = (msgs.map expected, .eof) := by
  have hw : ipmWrite enc blocked msgs = .ok (Writer.listToBytes 1012 blocked (msgs.map recOf)) := by
    unfold ipmWrite
    rw [mapO_ok enc msgs recOf (fun m hm => (henc m hm).1)]
    rfl
  refine ⟨_, hw, ?_⟩
  -- a value function on records that agrees with `expected` on the records written
  have hrecs : ∀ r ∈ msgs.map recOf, 0 < r.length ∧ r.length ≤ maxLen := by
    intro r hr
    obtain ⟨m, hm, rfl⟩ := List.mem_map.mp hr
    exact (henc m hm).2
  have hlen := length_le_vbsBytes (msgs.map recOf)
  -- read the decoded values off the message list by induction, generalising the stream position
  have key : ∀ (ms : List μ) (tail : Bytes) (fuel k : Nat) (l : Option Bytes),
      (∀ m ∈ ms, 0 < (recOf m).length ∧ (recOf m).length ≤ maxLen ∧ dec (recOf m) = .ok (expected m)) →
      ms.length < fuel →
      ipmReadAll plainSrc maxLen dec fuel ⟨vbsBytes (ms.map recOf) ++ (be32 0 ++ tail), k, l⟩ =
        (ms.map expected, .eof) := by
    intro ms
    induction ms with
    | nil =>
      intro tail fuel k l _ hf
      cases fuel with
      | zero => omega
      | succ f => rw [ipmReadAll_succ, List.map_nil, vbsBytes_nil, List.nil_append, next_zero]; rfl
    | cons m ms ih =>
      intro tail fuel k l h hf
      cases fuel with
      | zero => omega
      | succ f =>
        obtain ⟨h0, hml, hd⟩ := h m (by simp)
        rw [ipmReadAll_succ, List.map_cons, vbsBytes_cons, List.append_assoc, List.append_assoc,
          next_record h0 hml (by unfold lim32; exact hmax)]
        simp only [hd]
        rw [ih tail f (k + 1) _ (fun x hx => h x (by simp [hx])) (by simpa using hf)]
        rfl
  have hall : ∀ m ∈ msgs, 0 < (recOf m).length ∧ (recOf m).length ≤ maxLen ∧ dec (recOf m) = .ok (expected m) :=
    fun m hm => ⟨(henc m hm).2.1, (henc m hm).2.2, hdec m hm⟩
  cases blocked
  · simp only [ipmRead, Bool.false_eq_true, if_false, init]
    rw [C03.C03_layout_unblocked]
    have := key msgs [] ((vbsBytes (msgs.map recOf) ++ be32 0).length + 1) 1 none hall (by
      simp only [List.length_append, be32_length, List.length_map] at hlen ⊢; omega)
    simpa using this
  · simp only [ipmRead, if_true, init]
    obtain ⟨_, k, _, hp⟩ := C03.C03_layout_blocked (msgs.map recOf)
    rw [ipmReadAll_unblock]
    simp only [Unblock.remaining, List.nil_append]
    rw [hp, List.append_assoc]
    have hfile : (vbsBytes (msgs.map recOf)).length ≤ (Writer.listToBytes 1012 true (msgs.map recOf)).length := by
      have hrun : Writer.listToBytes 1012 true (msgs.map recOf) =
          stream 1012 (Writer.rawWrites (msgs.map recOf) ++ [be32 0]) := by
        simp [Writer.listToBytes, Writer.run_blocked]
      obtain ⟨extra, _, he, hb⟩ := C04.C04_blocks (Writer.rawWrites (msgs.map recOf) ++ [be32 0])
      have h1 := length_payloads_blocks hb
      rw [← payloads_blocks hb, ← he, ← hrun, hp] at h1
      simp at h1; omega
    exact key msgs _ _ 1 none hall (by simp only [List.length_map] at hlen; omega)

/-- instance isolation, as far as the functional model can state it: an operation on one
    reader/writer state never changes another state (states are values; there is no shared cell).
    That the Python classes keep their state per instance is established by the correspondence
    check, which drives 2–4 interleaved instances against this per-instance model. -/
theorem C06_states_independent {σ τ} (f : σ → σ) (s : σ) (t : τ) : (f s, t).2 = t := rfl

-- sanity test (evaluated): record lengths read back through a blocked file
#guard ipmRead (fun r => (.ok r.length : Outcome Nat)) 6000 true (Writer.listToBytes 1012 true [[1, 2, 3], [4]]) ==
  ([3, 1], .eof)

/-! ### the ISO8583 instance: C01 supplies the per-message round trip -/

open Cardutil.Iso Cardutil.Py Cardutil.Digits in
/-- a message the property speaks of: 4-digit MTI, no PDS keys, present elements well formed -/
def MsgOK (env : Env) (cfg : Config) (m : Dict) : Prop :=
  ∃ ds : List Nat, (∀ d ∈ ds, d < 10) ∧ ds.length = 4 ∧ Dict.get m .mti = some (.str (digitText ds)) ∧
    pdsEntriesOf m = [] ∧ ElemsWF env cfg m allBits

open Cardutil.Iso Cardutil.Py Cardutil.Digits in
/-- C06 at full strength for the ISO8583 codec: ANY list of well-formed messages (C01's domain)
    whose encodings are within the maximum record length, written by `IpmWriter` and read back by
    `IpmReader` with the same encoding, blocking and configuration, is returned as the same number
    of dictionaries, in the same order, each with the MTI and every present element of its message
    (C01's expected value) — VBS or 1014, any number of records and blocks -/
theorem C06_messages {env : Env} (henv : EnvOK env) (cfg : Config) (maxLen : Nat) (hmax : maxLen < 4294967296)
    (blocked : Bool) (msgs : List Dict)
    (hm : ∀ m ∈ msgs, MsgOK env cfg m)
    (hlen : ∀ m ∈ msgs, ∀ b, encode env cfg false m = .ok b → b.length ≤ maxLen) :
    ∃ file ds, ipmWrite (encode env cfg false) blocked msgs = .ok file ∧
      ipmRead (decode env cfg false) maxLen blocked file = (ds, .eof) ∧
      ds.length = msgs.length ∧
      ∀ i (h1 : i < msgs.length) (h2 : i < ds.length),
        Dict.get ds[i] .mti = Dict.get msgs[i] .mti ∧
        ∀ bit ∈ allBits, ∀ v, Dict.get msgs[i] (.de bit) = some v → present v = true →
          ∃ f exp sub, cfg.get bit = some f ∧ WFField env bit f v exp sub ∧
            Dict.get ds[i] (.de bit) = some exp := by
  let recOf : Dict → Bytes := fun m => match encode env cfg false m with | .ok b => b | _ => []
  let expected : Dict → Dict := fun m => match decode env cfg false (recOf m) with | .ok d => d | _ => []
  have hper : ∀ m ∈ msgs, encode env cfg false m = .ok (recOf m) ∧ 0 < (recOf m).length ∧
      decode env cfg false (recOf m) = .ok (expected m) ∧
      Dict.get (expected m) .mti = Dict.get m .mti ∧
      ∀ bit ∈ allBits, ∀ v, Dict.get m (.de bit) = some v → present v = true →
        ∃ f exp sub, cfg.get bit = some f ∧ WFField env bit f v exp sub ∧
          Dict.get (expected m) (.de bit) = some exp := by
    intro m hmm
    obtain ⟨ds, hds, hl, hmti, hnopds, hwf⟩ := hm m hmm
    obtain ⟨bs, d, h1, h2, h3, h4, _⟩ := C01.C01_roundtrip henv cfg false m ds hds hl hmti hnopds hwf
    have hr : recOf m = bs := by simp only [recOf, h1]
    have he : expected m = d := by simp only [expected, hr, h2]
    have hpos : 0 < bs.length := by
      have h1' := h1
      rw [C01.encode_no_pds _ _ _ _ hnopds] at h1'
      obtain ⟨mti, pres, data, _, _, hbs, _⟩ := C02.C02_message_layout env cfg false m bs h1'
      have hbl : (bytesOfBits (flagsOf pres)).length = 16 := bitmapOf_length pres
      rw [hbs]
      simp only [Bool.false_eq_true, if_false, List.length_append, hbl]
      omega
    rw [hr, he]
    exact ⟨h1, hpos, h2, by rw [h3, hmti], h4⟩
  obtain ⟨file, hw, hrd⟩ := C06_file_roundtrip (encode env cfg false) (decode env cfg false) expected recOf
    maxLen hmax blocked msgs
    (fun m hmm => ⟨(hper m hmm).1, (hper m hmm).2.1, hlen m hmm _ (hper m hmm).1⟩)
    (fun m hmm => (hper m hmm).2.2.1)
  refine ⟨file, msgs.map expected, hw, hrd, by simp, ?_⟩
  intro i h1 h2
  have hmem : msgs[i] ∈ msgs := List.getElem_mem h1
  rw [List.getElem_map]
  exact ⟨(hper _ hmem).2.2.2.1, (hper _ hmem).2.2.2.2⟩

open Cardutil.Iso in
/-- non-vacuity of `C06_messages`: two copies of C01's sample message under cp500 and the packaged
    configuration meet every hypothesis (the encoding is 42 bytes, evaluated by the kernel) -/
example : let env := C01.envOf Gen.cp500 (fun _ => none)
    (∀ m ∈ [C01.sampleMsg, C01.sampleMsg], MsgOK env Gen.bitConfig m) ∧
    (∀ m ∈ [C01.sampleMsg, C01.sampleMsg], ∀ b, encode env Gen.bitConfig false m = .ok b → b.length ≤ 6000) := by
  intro env
  have henc : encode env Gen.bitConfig false C01.sampleMsg =
      .ok ([241,241,244,244] ++ [208,0,0,0,0,0,0,0,0,0,0,0,0,0,0,0] ++ [240,248,244,244,244,244,245,245,245,245] ++
        [240,240,240,240,240,240,240,240,240,240,241,242]) := by decide +kernel
  refine ⟨?_, ?_⟩
  · intro m hm
    have : m = C01.sampleMsg := by simpa using hm
    subst this
    exact ⟨[1,1,4,4], by decide, rfl, rfl, rfl, C01.sample_wf _ _ (Or.inr (Or.inl rfl)) _ rfl rfl⟩
  · intro m hm b h
    have : m = C01.sampleMsg := by simpa using hm
    subst this
    rw [henc] at h
    injection h with e
    subst e
    decide

end Cardutil.Props.C06
