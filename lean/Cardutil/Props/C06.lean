import Cardutil.Lemmas.Vbs
import Cardutil.Props.C03
/-
  C06 — IPM file round trip: messages written are the messages read back.

  Stated for ANY message encoder `enc` and decoder `dec` related by a per-message round trip
  `dec (enc m) = ok (expected m)` — which is C01's conclusion for the ISO8583 model — so the file
  level adds no condition of its own beyond "each encoded message is non-empty and within the
  maximum record length".  Any number of records, any mix of message shapes, VBS and 1014.
-/
namespace Cardutil.Props.C06

open Cardutil Cardutil.Block Cardutil.Vbs

/-- `IpmWriter`: encode each message, hand the record to the VBS writer, close once -/
def ipmWrite {μ} (enc : μ → Outcome Bytes) (blocked : Bool) (msgs : List μ) : Outcome Bytes :=
  (Outcome.mapO enc msgs).bind (fun recs => .ok (Writer.listToBytes 1012 blocked recs))

/-- `list(IpmReader(file))` -/
def ipmRead {α} (dec : Bytes → Outcome α) (maxLen : Nat) (blocked : Bool) (file : Bytes) : List α × End :=
  if blocked then ipmReadAll (unblockSrc 1012) maxLen dec (file.length + 1) (init ⟨file, []⟩)
  else ipmReadAll plainSrc maxLen dec (file.length + 1) (init file)

theorem mapO_ok {μ} (enc : μ → Outcome Bytes) (msgs : List μ) (recOf : μ → Bytes)
    (h : ∀ m ∈ msgs, enc m = .ok (recOf m)) : Outcome.mapO enc msgs = .ok (msgs.map recOf) := by
  induction msgs with
  | nil => rfl
  | cons m ms ih =>
    simp only [Outcome.mapO, h m (by simp), ih (fun x hx => h x (by simp [hx])), Outcome.bind, List.map_cons]

/-- C06: any sequence of messages written to an IPM file and read back with the same encoding,
    blocking and configuration is returned as the same sequence (of expected values), then end of
    data — for both formats. -/
theorem C06_file_roundtrip {μ α} (enc : μ → Outcome Bytes) (dec : Bytes → Outcome α) (expected : μ → α)
    (recOf : μ → Bytes) (maxLen : Nat) (hmax : maxLen < 4294967296) (blocked : Bool) (msgs : List μ)
    (henc : ∀ m ∈ msgs, enc m = .ok (recOf m) ∧ 0 < (recOf m).length ∧ (recOf m).length ≤ maxLen)
    (hdec : ∀ m ∈ msgs, dec (recOf m) = .ok (expected m)) :
    ∃ file, ipmWrite enc blocked msgs = .ok file ∧
      ipmRead dec maxLen blocked file = (msgs.map expected, .eof) := by
  have hw : ipmWrite enc blocked msgs = .ok (Writer.listToBytes 1012 blocked (msgs.map recOf)) := by
    unfold ipmWrite
    rw [mapO_ok enc msgs recOf (fun m hm => (henc m hm).1)]
    rfl
  refine ⟨_, hw, ?_⟩
  -- a value function on records that agrees with `expected` on the records written
  have hrecs : ∀ r ∈ msgs.map recOf, 0 < r.length ∧ r.length ≤ maxLen := by
    intro r hr
    obtain ⟨m, hm, rfl⟩ := List.mem_map.mp hr
    exact (henc m hm).2
  have hlen := length_le_vbsBytes (msgs.map recOf)
  -- read the decoded values off the message list by induction, generalising the stream position
  have key : ∀ (ms : List μ) (tail : Bytes) (fuel k : Nat) (l : Option Bytes),
      (∀ m ∈ ms, 0 < (recOf m).length ∧ (recOf m).length ≤ maxLen ∧ dec (recOf m) = .ok (expected m)) →
      ms.length < fuel →
      ipmReadAll plainSrc maxLen dec fuel ⟨vbsBytes (ms.map recOf) ++ (be32 0 ++ tail), k, l⟩ =
        (ms.map expected, .eof) := by
    intro ms
    induction ms with
    | nil =>
      intro tail fuel k l _ hf
      cases fuel with
      | zero => omega
      | succ f => rw [ipmReadAll_succ, List.map_nil, vbsBytes_nil, List.nil_append, next_zero]; rfl
    | cons m ms ih =>
      intro tail fuel k l h hf
      cases fuel with
      | zero => omega
      | succ f =>
        obtain ⟨h0, hml, hd⟩ := h m (by simp)
        rw [ipmReadAll_succ, List.map_cons, vbsBytes_cons, List.append_assoc, List.append_assoc,
          next_record h0 hml (by unfold lim32; exact hmax)]
        simp only [hd]
        rw [ih tail f (k + 1) _ (fun x hx => h x (by simp [hx])) (by simpa using hf)]
        rfl
  have hall : ∀ m ∈ msgs, 0 < (recOf m).length ∧ (recOf m).length ≤ maxLen ∧ dec (recOf m) = .ok (expected m) :=
    fun m hm => ⟨(henc m hm).2.1, (henc m hm).2.2, hdec m hm⟩
  cases blocked
  · simp only [ipmRead, Bool.false_eq_true, if_false, init]
    rw [C03.C03_layout_unblocked]
    have := key msgs [] ((vbsBytes (msgs.map recOf) ++ be32 0).length + 1) 1 none hall (by
      simp only [List.length_append, be32_length, List.length_map] at hlen ⊢; omega)
    simpa using this
  · simp only [ipmRead, if_true, init]
    obtain ⟨_, k, _, hp⟩ := C03.C03_layout_blocked (msgs.map recOf)
    rw [ipmReadAll_unblock]
    simp only [Unblock.remaining, List.nil_append]
    rw [hp, List.append_assoc]
    have hfile : (vbsBytes (msgs.map recOf)).length ≤ (Writer.listToBytes 1012 true (msgs.map recOf)).length := by
      have hrun : Writer.listToBytes 1012 true (msgs.map recOf) =
          stream 1012 (Writer.rawWrites (msgs.map recOf) ++ [be32 0]) := by
        simp [Writer.listToBytes, Writer.run_blocked]
      obtain ⟨extra, _, he, hb⟩ := C04.C04_blocks (Writer.rawWrites (msgs.map recOf) ++ [be32 0])
      have h1 := length_payloads_blocks hb
      rw [← payloads_blocks hb, ← he, ← hrun, hp] at h1
      simp at h1; omega
    exact key msgs _ _ 1 none hall (by simp only [List.length_map] at hlen; omega)

/-- instance isolation, as far as the functional model can state it: an operation on one
    reader/writer state never changes another state (states are values; there is no shared cell).
    That the Python classes keep their state per instance is established by the correspondence
    check, which drives 2–4 interleaved instances against this per-instance model. -/
theorem C06_states_independent {σ τ} (f : σ → σ) (s : σ) (t : τ) : (f s, t).2 = t := rfl

-- sanity test (evaluated): record lengths read back through a blocked file
#guard ipmRead (fun r => (.ok r.length : Outcome Nat)) 6000 true (Writer.listToBytes 1012 true [[1, 2, 3], [4]]) ==
  ([3, 1], .eof)

end Cardutil.Props.C06
