import Cardutil.Lemmas.Vbs
import Cardutil.Props.C03
/-
  C09 — a file cut short at any byte yields only its complete records, then stops / errors.

  For every record list (non-empty records within the maximum) and EVERY cut offset `n`
  (no bound; `n` beyond the end is the whole file), reading `file.take n` yields exactly the
  records wholly contained in the surviving bytes — `recs.take j` where `j` is characterised by
  "the first `j` framed records fit in the surviving (payload) bytes and the `j+1`-th does not" —
  and then ends with end-of-data or the library's data error carrying record number `j+1`.
  `escape`/`diverge`/`fuel` endings are excluded by the statement.
-/
namespace Cardutil.Props.C09

open Cardutil Cardutil.Block

theorem C09_unblocked (maxLen : Nat) (hmax : maxLen < 4294967296) (recs : List Bytes)
    (h : ∀ r ∈ recs, 0 < r.length ∧ r.length ≤ maxLen) (n : Nat) :
    ∃ j e, vbsBytesToList 1012 maxLen false ((Writer.listToBytes 1012 false recs).take n) = (recs.take j, e) ∧
      j ≤ recs.length ∧
      (vbsBytes (recs.take j)).length ≤ n ∧
      (j < recs.length → n < (vbsBytes (recs.take (j + 1))).length) ∧
      (e = .eof ∨ ∃ c, e = .dataError (j + 1) c) := by
  rw [C03.C03_layout_unblocked]
  simp only [vbsBytesToList, Bool.false_eq_true, if_false, Vbs.init]
  have hl := length_le_vbsBytes recs
  obtain ⟨j, e, hr, hj, h1, h2, h3⟩ :=
    Vbs.readAll_truncated (ml := maxLen) (by unfold lim32; exact hmax) recs [] h n
      (((vbsBytes recs ++ be32 0).take n).length + 1) 1 none (by
        simp only [List.length_take, List.length_append, be32_length]; omega)
  refine ⟨j, e, by simpa using hr, hj, h1, h2, ?_⟩
  rcases h3 with h3 | ⟨c, h3⟩
  · exact Or.inl h3
  · exact Or.inr ⟨c, by rw [h3, Nat.add_comm]⟩

/-- blocked files: the surviving payload is `surv 1012 n` bytes (1012 per complete block plus
    what is present of the next block's payload — a cut inside a trailer or inside fill loses
    nothing more). -/
theorem C09_blocked (maxLen : Nat) (hmax : maxLen < 4294967296) (recs : List Bytes)
    (h : ∀ r ∈ recs, 0 < r.length ∧ r.length ≤ maxLen) (n : Nat) :
    ∃ j e, vbsBytesToList 1012 maxLen true ((Writer.listToBytes 1012 true recs).take n) = (recs.take j, e) ∧
      j ≤ recs.length ∧
      (vbsBytes (recs.take j)).length ≤ surv 1012 n ∧
      (j < recs.length → surv 1012 n < (vbsBytes (recs.take (j + 1))).length) ∧
      (e = .eof ∨ ∃ c, e = .dataError (j + 1) c) := by
  have hrun : Writer.listToBytes 1012 true recs = stream 1012 (Writer.rawWrites recs ++ [be32 0]) := by
    simp [Writer.listToBytes, Writer.run_blocked]
  obtain ⟨extra, _, he, hb⟩ := C04.C04_blocks (Writer.rawWrites recs ++ [be32 0])
  obtain ⟨_, k, _, hp⟩ := C03.C03_layout_blocked recs
  have hpay : payloads 1012 ((Writer.listToBytes 1012 true recs).take n) =
      (vbsBytes recs ++ (be32 0 ++ List.replicate k padByte)).take (surv 1012 n) := by
    rw [hrun, he, payloads_take_blocks hb, ← payloads_blocks hb, ← he, ← hrun, hp, List.append_assoc]
  have hlenF : (vbsBytes recs).length ≤ (Writer.listToBytes 1012 true recs).length := by
    have h1 := length_payloads_blocks hb
    rw [← payloads_blocks hb, ← he, ← hrun, hp] at h1
    simp at h1; omega
  simp only [vbsBytesToList, if_true, Vbs.init]
  rw [Vbs.readAll_unblock]
  simp only [Unblock.remaining, List.nil_append]
  rw [hpay]
  have hl := length_le_vbsBytes recs
  have hs := surv_le 1012 n
  obtain ⟨j, e, hr, hj, h1, h2, h3⟩ :=
    Vbs.readAll_truncated (ml := maxLen) (by unfold lim32; exact hmax) recs (List.replicate k padByte) h
      (surv 1012 n) (((Writer.listToBytes 1012 true recs).take n).length + 1) 1 none (by
        simp only [List.length_take]; omega)
  refine ⟨j, e, hr, hj, h1, h2, ?_⟩
  rcases h3 with h3 | ⟨c, h3⟩
  · exact Or.inl h3
  · exact Or.inr ⟨c, by rw [h3, Nat.add_comm]⟩

/-- C09 at the packaged limit, both formats: the records delivered are always a prefix of the
    records written (never partial, altered or invented) and the ending is never anything but
    end-of-data or the library error. -/
theorem C09_prefix (blocked : Bool) (recs : List Bytes)
    (h : ∀ r ∈ recs, 0 < r.length ∧ r.length ≤ 6000) (n : Nat) :
    ∃ j e, vbsBytesToList 1012 6000 blocked ((Writer.listToBytes 1012 blocked recs).take n) = (recs.take j, e) ∧
      (e = .eof ∨ ∃ c, e = .dataError (j + 1) c) := by
  cases blocked
  · obtain ⟨j, e, hr, _, _, _, he⟩ := C09_unblocked 6000 (by decide) recs h n
    exact ⟨j, e, hr, he⟩
  · obtain ⟨j, e, hr, _, _, _, he⟩ := C09_blocked 6000 (by decide) recs h n
    exact ⟨j, e, hr, he⟩

/-- C09 (IPM form): for a file of records that all decode (an IPM file written by the library),
    iterating an IPM reader over ANY truncation yields exactly the decodings of the records wholly
    contained in the surviving bytes, in order, then end-of-data or the library's data error — for
    any message decoder `dec`, both formats -/
theorem C09_ipm (blocked : Bool) {α} (dec : Bytes → Outcome α) (val : Bytes → α) (recs : List Bytes)
    (h : ∀ r ∈ recs, 0 < r.length ∧ r.length ≤ 6000) (hdec : ∀ r ∈ recs, dec r = .ok (val r)) (n : Nat) :
    ∃ j e,
      (if blocked then
          Vbs.ipmReadAll (unblockSrc 1012) 6000 dec (((Writer.listToBytes 1012 blocked recs).take n).length + 1)
            (Vbs.init ⟨(Writer.listToBytes 1012 blocked recs).take n, []⟩)
        else
          Vbs.ipmReadAll plainSrc 6000 dec (((Writer.listToBytes 1012 blocked recs).take n).length + 1)
            (Vbs.init ((Writer.listToBytes 1012 blocked recs).take n))) = ((recs.take j).map val, e) ∧
      (e = .eof ∨ ∃ c, e = .dataError (j + 1) c) := by
  obtain ⟨j, e, hr, he⟩ := C09_prefix blocked recs h n
  refine ⟨j, e, ?_, he⟩
  have hall : ∀ r ∈ recs.take j, dec r = .ok (val r) := fun r hr' => hdec r (List.mem_of_mem_take hr')
  cases blocked
  · simp only [vbsBytesToList, Bool.false_eq_true, if_false] at hr ⊢
    rw [Vbs.ipmReadAll_of_readAll _ _ dec val _ _ (by rw [hr]; exact hall), hr]
  · simp only [vbsBytesToList, if_true] at hr ⊢
    rw [Vbs.ipmReadAll_of_readAll _ _ dec val _ _ (by rw [hr]; exact hall), hr]

-- sanity tests (evaluated): cut inside the second record, and inside the second length prefix
#guard vbsBytesToList 1012 6000 false ((Writer.listToBytes 1012 false [[1, 2], [3, 4, 5]]).take 12) ==
  ([[1, 2]], .dataError 2 [0, 0, 0, 3, 3, 4])
#guard vbsBytesToList 1012 6000 false ((Writer.listToBytes 1012 false [[1, 2], [3, 4, 5]]).take 8) == ([[1, 2]], .eof)

end Cardutil.Props.C09
