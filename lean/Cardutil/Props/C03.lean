import Cardutil.Lemmas.Vbs
import Cardutil.Props.C04
/-
  C03 — VBS framing: any record list survives write then read, with byte-exact layout.

  `Writer.listToBytes P blocked recs` models `vbs_list_to_bytes` / a `VbsWriter` receiving `recs`
  then `close()`; `vbsBytesToList` models `vbs_bytes_to_list` / iterating a `VbsReader`.
  Records are arbitrary byte lists; the only hypotheses are the ones the property states:
  non-empty, at most the configured maximum (which is below 2^32).
-/
namespace Cardutil.Props.C03

open Cardutil Cardutil.Block

/-- C03(a): the unblocked file is exactly each record preceded by its 4-byte big-endian length,
    terminated by a zero length. -/
theorem C03_layout_unblocked (recs : List Bytes) :
    Writer.listToBytes 1012 false recs = vbsBytes recs ++ be32 0 := by
  simp [Writer.listToBytes, Writer.run_unblocked]

/-- C03(b): the blocked file carries that same byte stream as its payload (then only 0x40 fill),
    in a whole number of well-formed 1014-byte blocks. -/
theorem C03_layout_blocked (recs : List Bytes) :
    wellBlocked 1012 (Writer.listToBytes 1012 true recs) = true ∧
    ∃ k, k < 2024 ∧ payloads 1012 (Writer.listToBytes 1012 true recs) =
      vbsBytes recs ++ be32 0 ++ List.replicate k padByte := by
  have hrun : Writer.listToBytes 1012 true recs = stream 1012 (Writer.rawWrites recs ++ [be32 0]) := by
    simp [Writer.listToBytes, Writer.run_blocked]
  rw [hrun]
  refine ⟨C04.C04_trailers _, ?_⟩
  obtain ⟨k, hk, hp⟩ := C04.C04_payloads (Writer.rawWrites recs ++ [be32 0])
  refine ⟨k, hk, ?_⟩
  rw [hp]; simp [Writer.rawWrites_flatten]

/-- C03(c), unblocked round trip -/
theorem C03_roundtrip_unblocked (maxLen : Nat) (hmax : maxLen < 4294967296) (recs : List Bytes)
    (h : ∀ r ∈ recs, 0 < r.length ∧ r.length ≤ maxLen) :
    vbsBytesToList 1012 maxLen false (Writer.listToBytes 1012 false recs) = (recs, .eof) := by
  rw [C03_layout_unblocked]
  simp only [vbsBytesToList, Bool.false_eq_true, if_false, Vbs.init]
  have := Vbs.readAll_vbs (ml := maxLen) (by unfold lim32; exact hmax) recs [] h
    ((vbsBytes recs ++ be32 0).length + 1) 1 none (by
      have := length_le_vbsBytes recs
      simp; omega)
  simpa using this

/-- C03(d), blocked round trip -/
theorem C03_roundtrip_blocked (maxLen : Nat) (hmax : maxLen < 4294967296) (recs : List Bytes)
    (h : ∀ r ∈ recs, 0 < r.length ∧ r.length ≤ maxLen) :
    vbsBytesToList 1012 maxLen true (Writer.listToBytes 1012 true recs) = (recs, .eof) := by
  obtain ⟨_, k, _, hp⟩ := C03_layout_blocked recs
  simp only [vbsBytesToList, if_true, Vbs.init]
  rw [Vbs.readAll_unblock]
  simp only [Unblock.remaining, List.nil_append]
  rw [hp, List.append_assoc]
  have hlen := length_le_vbsBytes recs
  have hfile : (vbsBytes recs).length ≤ (Writer.listToBytes 1012 true recs).length := by
    have h1 : (payloads 1012 (Writer.listToBytes 1012 true recs)).length ≤
        (Writer.listToBytes 1012 true recs).length := by
      obtain ⟨extra, _, he, hb⟩ := C04.C04_blocks (Writer.rawWrites recs ++ [be32 0])
      have hrun : Writer.listToBytes 1012 true recs = stream 1012 (Writer.rawWrites recs ++ [be32 0]) := by
        simp [Writer.listToBytes, Writer.run_blocked]
      rw [hrun, he, payloads_blocks hb, length_flatten_blocks hb]
      clear he
      generalize (List.map (mkBlock 1012) (chunks 1012 (Writer.rawWrites recs ++ [be32 0]).flatten) ++ extra) = bs at hb
      induction bs with
      | nil => simp
      | cons b bs ih =>
        have := ih (fun x hx => hb x (by simp [hx]))
        simp [List.length_take] at this ⊢; omega
    rw [hp] at h1; simp at h1; omega
  exact Vbs.readAll_vbs (ml := maxLen) (by unfold lim32; exact hmax) recs _ h _ 1 none (by omega)

/-- C03 at the packaged limit: `MAX_VBS_RECORD_LENGTH = 6000`, both formats. -/
theorem C03_roundtrip (blocked : Bool) (recs : List Bytes)
    (h : ∀ r ∈ recs, 0 < r.length ∧ r.length ≤ 6000) :
    vbsBytesToList 1012 6000 blocked (Writer.listToBytes 1012 blocked recs) = (recs, .eof) := by
  cases blocked
  · exact C03_roundtrip_unblocked 6000 (by decide) recs h
  · exact C03_roundtrip_blocked 6000 (by decide) recs h

/-- non-vacuity of the hypotheses: a two-record list (content resembling a terminator and fill) -/
example : ∀ r ∈ [[0, 64, 0, 0], [64]], 0 < r.length ∧ r.length ≤ 6000 := by
  intro r hr
  simp at hr
  rcases hr with rfl | rfl <;> simp

-- sanity tests (evaluated)
#guard Writer.listToBytes 1012 false [[1, 2], [255]] == [0, 0, 0, 2, 1, 2, 0, 0, 0, 1, 255, 0, 0, 0, 0]
#guard vbsBytesToList 1012 6000 true (Writer.listToBytes 1012 true [[1, 2], [255]]) == ([[1, 2], [255]], .eof)

end Cardutil.Props.C03
