import Cardutil.Model.Card
/-
  C15 — Luhn check digits are correct and validation really rejects bad numbers.

  Digit strings are lists of naturals below 10, of ANY length.  `luhnValid n` is the textbook
  definition: from the right, weights 1,2,1,2,…, digits of products added, total ≡ 0 (mod 10).
-/
namespace Cardutil.Props.C15

open Cardutil Cardutil.Card

def Digits (ds : List Nat) : Prop := ∀ d ∈ ds, d < 10

/-- the textbook validity of a full number (check digit included) -/
def luhnValid (n : List Nat) : Prop := wsum false n.reverse % 10 = 0

theorem wsum_append (f : Bool) (a b : List Nat) :
    wsum f (a ++ b) = wsum f a + wsum (if a.length % 2 = 0 then f else !f) b := by
  induction a generalizing f with
  | nil => simp [wsum]
  | cons x xs ih =>
    simp only [List.cons_append, wsum, ih, List.length_cons]
    have : (if xs.length % 2 = 0 then !f else !!f) = (if (xs.length + 1) % 2 = 0 then f else !f) := by
      by_cases h : xs.length % 2 = 0
      · have h2 : ¬ (xs.length + 1) % 2 = 0 := by omega
        simp [h, h2]
      · have h2 : (xs.length + 1) % 2 = 0 := by omega
        simp [h, h2]
    rw [this]; omega

/-- C15(a): the computed digit is the Luhn digit: the unique `c < 10` with `(S + c) % 10 = 0`
    where `S` is the weighted digit sum of the payload (weights 2,1,2,… from the right). -/
theorem C15_calc_spec (ds : List Nat) :
    checkDigit ds < 10 ∧ (wsum true ds.reverse + checkDigit ds) % 10 = 0 ∧
    ∀ c, c < 10 → (wsum true ds.reverse + c) % 10 = 0 → c = checkDigit ds := by
  unfold checkDigit
  refine ⟨by omega, by omega, fun c hc h => by omega⟩

/-- C15(b): appending the computed digit always gives a valid number -/
theorem C15_append_valid (ds : List Nat) : luhnValid (ds ++ [checkDigit ds]) := by
  unfold luhnValid
  have := (C15_calc_spec ds).1
  simp only [List.reverse_append, List.reverse_cons, List.reverse_nil, List.nil_append,
    List.cons_append, wsum, Bool.not_false, dsum, Bool.false_eq_true, if_false, Nat.one_mul, Nat.add_zero]
  have h2 := (C15_calc_spec ds).2.1
  omega

theorem nine_aux : ∀ r, r < 10 → ∀ c, c < 10 → ((r * 9) % 10 = c ↔ (c + r) % 10 = 0) := by decide

/-- the validation the code performs (recompute the digit of all but the last, compare with the
    last) is exactly textbook validity -/
theorem C15_validate_iff (ds : List Nat) (c : Nat) (hc : c < 10) :
    checkDigit ds = c ↔ luhnValid (ds ++ [c]) := by
  unfold luhnValid checkDigit
  simp only [List.reverse_append, List.reverse_cons, List.reverse_nil, List.nil_append,
    List.cons_append, wsum, Bool.not_false, dsum, Bool.false_eq_true, if_false, Nat.one_mul, Nat.add_zero]
  have h1 : wsum true ds.reverse * 9 % 10 = (wsum true ds.reverse % 10) * 9 % 10 := by omega
  have h2 : (c / 10 + c % 10 + wsum true ds.reverse) % 10 = (c + wsum true ds.reverse % 10) % 10 := by omega
  rw [h1, h2]
  exact nine_aux _ (Nat.mod_lt _ (by decide)) c hc

/-- doubling-and-digit-sum is injective on 0..9 (the reason single-digit errors are caught) -/
theorem w_inj2 : ∀ x, x < 10 → ∀ y, y < 10 → dsum (2 * x) % 10 = dsum (2 * y) % 10 → x = y := by decide
theorem w_inj1 : ∀ x, x < 10 → ∀ y, y < 10 → dsum (1 * x) % 10 = dsum (1 * y) % 10 → x = y := by decide

theorem w_inj (f : Bool) (x y : Nat) (hx : x < 10) (hy : y < 10)
    (h : dsum ((if f then 2 else 1) * x) % 10 = dsum ((if f then 2 else 1) * y) % 10) : x = y := by
  cases f
  · exact w_inj1 x hx y hy (by simpa using h)
  · exact w_inj2 x hx y hy (by simpa using h)

/-- the transposition fact on digits: doubling one and not the other distinguishes `xy` from `yx`
    unless the digits are equal or are 0 and 9 -/
theorem swap_detect_aux : ∀ x, x < 10 → ∀ y, y < 10 →
    (x = y ∨ (x = 0 ∧ y = 9) ∨ (x = 9 ∧ y = 0) ∨
     (dsum (2 * x) + dsum (1 * y)) % 10 ≠ (dsum (2 * y) + dsum (1 * x)) % 10) := by decide

theorem swap_detect (x : Nat) (hx : x < 10) (y : Nat) (hy : y < 10) (hne : x ≠ y)
    (h09 : ¬ ((x = 0 ∧ y = 9) ∨ (x = 9 ∧ y = 0))) :
    (dsum (2 * x) + dsum (1 * y)) % 10 ≠ (dsum (2 * y) + dsum (1 * x)) % 10 := by
  rcases swap_detect_aux x hx y hy with h | h | h | h
  · exact absurd h hne
  · exact absurd (Or.inl h) h09
  · exact absurd (Or.inr h) h09
  · exact h

/-- C15(c): changing exactly one digit of a valid number makes it invalid -/
theorem C15_single_digit (a b : List Nat) (x y : Nat) (hx : x < 10) (hy : y < 10) (hne : x ≠ y)
    (hv : luhnValid (a ++ x :: b)) : ¬ luhnValid (a ++ y :: b) := by
  unfold luhnValid at *
  intro hv'
  simp only [List.reverse_append, List.reverse_cons, List.append_assoc, List.cons_append,
    List.nil_append, wsum_append, wsum] at hv hv'
  apply hne
  apply w_inj (if b.reverse.length % 2 = 0 then false else !false) x y hx hy
  omega

/-- C15(d): swapping two adjacent different digits, other than 0/9, makes a valid number invalid -/
theorem C15_transposition (a b : List Nat) (x y : Nat) (hx : x < 10) (hy : y < 10) (hne : x ≠ y)
    (h09 : ¬ ((x = 0 ∧ y = 9) ∨ (x = 9 ∧ y = 0)))
    (hv : luhnValid (a ++ x :: y :: b)) : ¬ luhnValid (a ++ y :: x :: b) := by
  unfold luhnValid at *
  intro hv'
  simp only [List.reverse_append, List.reverse_cons, List.append_assoc, List.cons_append,
    List.nil_append, wsum_append, wsum, List.length_cons, List.length_nil] at hv hv'
  by_cases hp : b.reverse.length % 2 = 0
  · have hq : ¬ (b.reverse.length + 1) % 2 = 0 := by omega
    simp only [hp, hq, if_true, if_false, Bool.not_false, Bool.false_eq_true, Bool.not_true] at hv hv'
    exact swap_detect y hy x hx (Ne.symm hne) (by omega) (by omega)
  · have hq : (b.reverse.length + 1) % 2 = 0 := by omega
    simp only [hp, hq, if_true, if_false, Bool.not_false, Bool.false_eq_true, Bool.not_true] at hv hv'
    exact swap_detect x hx y hy hne h09 (by omega)

/-- text level: the check-digit function returns one ASCII digit character -/
theorem C15_calcText_digit (t : Text) : ∃ d, d < 10 ∧ calcText t = [48 + d] :=
  ⟨checkDigit (digitsOf t), (C15_calc_spec _).1, rfl⟩

/-- text level: `validate(add_check_digit(t))` accepts, for every text -/
theorem C15_add_then_validate (t : Text) : validateText (addCheckDigit t) = .ok () := by
  simp [validateText, addCheckDigit, calcText]

/-- text level: validation of a non-empty digit string accepts iff the number is Luhn-valid, and
    rejects with AssertionError otherwise (no third outcome) -/
theorem C15_validateText (ds : List Nat) (c : Nat) (hc : c < 10) (hds : Digits ds) :
    (validateText ((ds ++ [c]).map (· + 48)) = .ok () ↔ luhnValid (ds ++ [c])) ∧
    (validateText ((ds ++ [c]).map (· + 48)) = .ok () ∨
     validateText ((ds ++ [c]).map (· + 48)) = .escape .assertionError) := by
  have hdig : digitsOf (ds.map (· + 48)) = ds := by
    unfold digitsOf
    induction ds with
    | nil => rfl
    | cons d ds ih =>
      have hd := hds d (by simp)
      have := ih (fun x hx => hds x (by simp [hx]))
      simp only [List.map_cons, List.filter_cons]
      have h1 : (48 ≤ d + 48 ∧ d + 48 ≤ 57) := by omega
      simp only [h1, and_self, decide_true, if_true, List.map_cons, this]
      simp
  have hv : validateText ((ds ++ [c]).map (· + 48)) =
      if checkDigit ds = c then .ok () else .escape .assertionError := by
    simp only [validateText, List.map_append, List.map_cons, List.map_nil]
    simp only [List.getLast?_append, List.getLast?_singleton, Option.some_or, List.dropLast_concat,
      calcText, hdig]
    by_cases h : checkDigit ds = c
    · simp [h, Nat.add_comm]
    · have : ¬ (48 + checkDigit ds = c + 48) := by omega
      simp [h, this]
  rw [hv]
  constructor
  · rw [← C15_validate_iff ds c hc]
    by_cases h : checkDigit ds = c <;> simp [h]
  · by_cases h : checkDigit ds = c <;> simp [h]

/-- non-vacuity: the documentation's example 7992739871 → 3, and 79927398713 is valid -/
example : checkDigit [7, 9, 9, 2, 7, 3, 9, 8, 7, 1] = 3 := by decide
example : luhnValid [7, 9, 9, 2, 7, 3, 9, 8, 7, 1, 3] := by unfold luhnValid; decide
example : Digits [7, 9, 9, 2, 7, 3, 9, 8, 7, 1] := by intro d hd; simp at hd; omega

end Cardutil.Props.C15
